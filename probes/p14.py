from typing import Union, Optional, List, Dict
from datetime import datetime, timezone, timedelta
from tinyflux import TinyFlux, Point, TimeQuery, TagQuery, FieldQuery, MeasurementQuery
from tinyflux.storages import MemoryStorage
T0 = datetime(2020, 1, 1, tzinfo=timezone.utc)
Bad = Union[int, float, bool, bytes, None, str, List[int], Dict[str, int]]

def well_typed(p) -> bool:
    if not isinstance(p.time, datetime) or not isinstance(p.measurement, str):
        return False
    for k, v in p.tags.items():
        if not isinstance(k, str) or not (v is None or isinstance(v, str)):
            return False
    for k, v in p.fields.items():
        if not isinstance(k, str): return False
        if v is not None and (isinstance(v, bool) or not isinstance(v, (int, float))): return False
    return True

def h_update_callable(v: Bad, slot: int) -> bool:
    """
    pre: 0 <= slot < 4
    post: _
    """
    db = TinyFlux(storage=MemoryStorage)
    db.insert(Point(time=T0, tags={"a": "b"}, fields={"f": 1}))
    try:
        if slot == 0:
            db.update_all(tags=lambda t: {"a": v})
        elif slot == 1:
            db.update_all(fields=lambda f: {"f": v})
        elif slot == 2:
            db.update_all(tags=lambda t: {v: "x"})
        else:
            db.update_all(fields=lambda f: {v: 1})
    except (ValueError, TypeError):
        pass
    return all(well_typed(p) for p in db.all())
