from typing import Optional
from tinyflux import Point
from tinyflux.index import Index
import symtime2 as symtime
from symtime2 import SymTime
symtime.install()
from crosshair.core import deep_realize
FAIL = []

def canon(ix: Index):
    return (ix._num_items, list(ix._timestamps), list(ix._storage_pos_sorted_by_ts),
            {k: {v: list(l) for v, l in d.items()} for k, d in ix._tags.items()},
            {k: list(l) for k, l in ix._fields.items()},
            {k: list(l) for k, l in ix._measurements.items()})

def h_remove_step(t0: int, t1: int, t2: int, r0: bool, r1: bool, r2: bool, f1: Optional[int]) -> bool:
    """
    post: _
    """
    ts = [t0, t1, t2]; rm = [r0, r1, r2]
    pts = [Point(time=SymTime(ts[i]), measurement="m" if i != 1 else "n", tags={"k": str(i)}, fields={"f": f1} if i == 1 else {}) for i in range(3)]
    ix = Index(); ix.build(pts)
    removed = {i for i in range(3) if rm[i]}
    if not removed or len(removed) == 3:
        return True
    # what database._remove_helper does on the index path
    updated = {}; new = 0
    for i in range(3):
        if i in removed: continue
        if i != new: updated[i] = new
        new += 1
    ix.remove(removed); ix.update(updated)
    fresh = Index(); fresh.build([p for i, p in enumerate(pts) if i not in removed])
    ok = canon(ix) == canon(fresh)
    if not ok:
        FAIL.append(deep_realize(dict(ts=ts, rm=rm, f1=f1)))
    return ok
