import datetime as _dt
_real = _dt.datetime
UTC = _dt.timezone.utc
NOW = [0]
M = 1000000
class StubEscape(BaseException): pass
class Stamp:
    """The real number us/10^6 (what datetime.timestamp() returns), kept exact."""
    __slots__ = ("us",)
    def __init__(self, us): self.us = us
    @staticmethod
    def _us(o):
        if isinstance(o, Stamp): return o.us
        if isinstance(o, int) and not isinstance(o, bool): return o * M
        raise StubEscape(f"Stamp compared with {type(o)}")
    def __lt__(self, o): return self.us < Stamp._us(o)
    def __le__(self, o): return self.us <= Stamp._us(o)
    def __gt__(self, o): return self.us > Stamp._us(o)
    def __ge__(self, o): return self.us >= Stamp._us(o)
    def __eq__(self, o): return self.us == Stamp._us(o)
    def __ne__(self, o): return self.us != Stamp._us(o)
    def __hash__(self): raise StubEscape("hash(Stamp)")
    def __int__(self): return self.us // M if self.us >= 0 else -((-self.us) // M)
    def __floor__(self): return self.us // M
    def __round__(self, nd=None):
        if nd is None: raise StubEscape("round(Stamp)")
        if nd >= 6: return self
        raise StubEscape("round(Stamp, nd<6)")
    def __float__(self): raise StubEscape("float(Stamp)")
    def __repr__(self): return f"Stamp({self.us!r})"
class SymTime(_real):
    def __new__(cls, us, off=0):
        self = _real.__new__(cls, 2000, 1, 1)
        self._us = us; self._off = off
        return self
    def astimezone(self, tz=None):
        assert tz is UTC
        return SymTime(self._us, 0)
    def replace(self, tzinfo=True, **kw):
        assert not kw
        if tzinfo is None:
            return SymTime(self._us + self._off, None) if self._off is not None else self
        assert tzinfo is UTC
        return SymTime(self._us if self._off is None else self._us + self._off, 0)
    def timestamp(self): return Stamp(self._us)
    @property
    def tzinfo(self): return UTC if self._off == 0 else None
    @classmethod
    def fromtimestamp(cls, ts, tz=None): return SymTime(Stamp._us(ts), 0)
    @classmethod
    def now(cls, tz=None): return SymTime(NOW[0], 0)
    def _cmp(self, other, op):
        if not isinstance(other, SymTime): return NotImplemented
        return op(self._us, other._us)
    def __lt__(self, o): return self._cmp(o, lambda a, b: a < b)
    def __le__(self, o): return self._cmp(o, lambda a, b: a <= b)
    def __gt__(self, o): return self._cmp(o, lambda a, b: a > b)
    def __ge__(self, o): return self._cmp(o, lambda a, b: a >= b)
    def __eq__(self, o): return isinstance(o, SymTime) and self._us == o._us
    def __ne__(self, o): return not self.__eq__(o)
    def __hash__(self): raise StubEscape("hash(SymTime)")
    def __bool__(self): return True
    def __deepcopy__(self, memo): return self
    def __copy__(self): return self
    def __repr__(self): return f"SymTime({self._us!r},{self._off!r})"
def install():
    import tinyflux.database, tinyflux.index, tinyflux.point, tinyflux.storages, tinyflux.queries
    for m in (tinyflux.database, tinyflux.index, tinyflux.point, tinyflux.storages, tinyflux.queries):
        m.datetime = SymTime
