from typing import List, Optional
from tinyflux.utils import find_eq, find_lt, find_le, find_gt, find_ge

def _sorted(l):
    return all(l[i] <= l[i+1] for i in range(len(l)-1))

def h_find_lt(l: List[int], x: int) -> Optional[int]:
    """
    pre: len(l) <= 7
    pre: _sorted(l)
    post: (_ is None and all(v >= x for v in l)) or (_ is not None and 0 <= _ < len(l) and l[_] < x and all(v >= x for v in l[_+1:]))
    """
    return find_lt(l, x)

def h_find_eq(l: List[int], x: int) -> Optional[int]:
    """
    pre: len(l) <= 7
    pre: _sorted(l)
    post: (_ is None and all(v != x for v in l)) or (_ is not None and 0 <= _ < len(l) and l[_] == x and all(v != x for v in l[:_]))
    """
    return find_eq(l, x)

def h_find_lt_witness(l: List[int], x: int) -> Optional[int]:
    """
    pre: len(l) <= 7
    pre: _sorted(l)
    post: False
    """
    return find_lt(l, x)
