import z3, time
k = z3.String('k'); v = z3.String('v')
def S(x): return z3.StringVal(x)
def at(s, i): return z3.SubString(s, i, 1)
def decode_key(cell):
    # mirrors Point._deserialize_from_list prefix sniffing: returns (kind, key)
    is_tag_default = at(cell, 1) == S("t")
    is_tag_compact = at(cell, 0) == S("t")
    is_field_default = at(cell, 1) == S("f")
    kind = z3.If(is_tag_default, S("T"), z3.If(is_tag_compact, S("T"), S("F")))
    key = z3.If(is_tag_default, z3.SubString(cell, 5, z3.Length(cell) - 5),
          z3.If(is_tag_compact, z3.SubString(cell, 2, z3.Length(cell) - 2),
          z3.If(is_field_default, z3.SubString(cell, 7, z3.Length(cell) - 7), z3.SubString(cell, 2, z3.Length(cell) - 2))))
    return kind, key
for pre, kind in (("_tag_", "T"), ("t_", "T"), ("_field_", "F"), ("f_", "F")):
    s = z3.Solver(); s.set("timeout", 60000)
    kd, ky = decode_key(z3.Concat(S(pre), k))
    s.add(z3.Or(kd != S(kind), ky != k))
    t = time.time(); print(pre, s.check(), round(time.time() - t, 3))
# value slot: None <-> "_none"
s = z3.Solver()
enc = v  # str(v)
dec_is_none = enc == S("_none")
s.add(dec_is_none)   # a non-None string decodes to None?
print("value collision", s.check(), s.model())
