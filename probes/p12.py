import os, shutil, csv, builtins
from datetime import datetime, timezone, timedelta
from tinyflux import TinyFlux, Point, TagQuery
import tinyflux.storages as S

T0 = datetime(2020, 1, 1, tzinfo=timezone.utc)
TS = [T0 + timedelta(seconds=i) for i in range(6)]
class Crash(BaseException): pass
class Ctl:
    step = 0; crash_at = -1; log = []
    @classmethod
    def tick(cls, what):
        cls.step += 1
        cls.log.append(what)
        if cls.crash_at == cls.step:
            raise Crash(what)
class RecFile:
    def __init__(self, f): self._f = f
    def write(self, s): Ctl.tick("write"); return self._f.write(s)
    def flush(self): Ctl.tick("flush"); return self._f.flush()
    def truncate(self, *a): Ctl.tick("truncate"); return self._f.truncate(*a)
    def close(self): Ctl.tick("close"); return self._f.close()
    def seek(self, *a): return self._f.seek(*a)      # seek may flush: boundary not separately modelled in probe
    def tell(self): return self._f.tell()
    def __enter__(self): return self
    def __exit__(self, *a): self._f.close(); return False
    def fileno(self): return self._f.fileno()
    def __iter__(self): return iter(self._f)
    def __next__(self): return next(self._f)
    @property
    def name(self): return self._f.name
def rec_open(path, mode="r", **kw):
    Ctl.tick("open")
    return RecFile(builtins.open(path, mode, **kw))
class OsShim:
    SEEK_END = os.SEEK_END; path = os.path
    @staticmethod
    def fsync(fd): Ctl.tick("fsync"); return os.fsync(fd)
    makedirs = staticmethod(os.makedirs)
class ShutilShim:
    @staticmethod
    def copy(src, dst):
        Ctl.tick("copy-open")           # destination opened with truncation
        data = builtins.open(src, "rb").read()
        f = builtins.open(dst, "wb")
        Ctl.tick("copy-mid")
        f.write(data); f.close()
        Ctl.tick("copy-done")
CNT = [0]
def fresh_dir():
    CNT[0] += 1
    d = f"/dev/shm/vp12_{os.getpid()}_{CNT[0]}"; os.makedirs(d); return d
def install(d):
    n = [0]
    def NTF(mode="w+b", newline=None, delete=True, **kw):
        n[0] += 1
        Ctl.tick("tmp-open")
        return RecFile(builtins.open(os.path.join(d, f"tmp{n[0]}"), mode, newline=newline, **kw))
    S.open = rec_open; S.os = OsShim; S.shutil = ShutilShim; S.NamedTemporaryFile = NTF
def read_indep(path):
    with builtins.open(path, newline="") as f:
        return [Point()._deserialize_from_list(r) for r in csv.reader(f)]

def h_crash(k: int, op: int, g0: bool, g1: bool) -> bool:
    """
    pre: 1 <= k <= 40 and 0 <= op < 3
    post: _
    """
    d = fresh_dir(); install(d)
    try:
        path = os.path.join(d, "db.csv")
        Ctl.step = 0; Ctl.crash_at = -1; Ctl.log = []
        db = TinyFlux(path)
        gs = [g0, g1, False]
        pts = [Point(time=TS[i], tags={"g": "a" if gs[i] else "b"}) for i in range(3)]
        for p in pts: db.insert(p)
        old = read_indep(path)
        if op == 0:
            new_pts = [Point(time=TS[3]), Point(time=TS[4])]
            allowed = [old, old + new_pts[:1], old + new_pts]
        elif op == 1:
            allowed = [old, [p for i, p in enumerate(old) if not gs[i]]]
        else:
            allowed = [old, []]
        Ctl.step = 0; Ctl.crash_at = k
        try:
            if op == 0: db.insert_multiple(new_pts)
            elif op == 1: db.remove(TagQuery().g == "a")
            else: db.remove_all()
        except Crash:
            try:
                got = read_indep(path)
            except Exception:
                return False
            return got in allowed
        return True
    finally:
        Ctl.crash_at = -1
        shutil.rmtree(d, ignore_errors=True)
