from typing import Optional
from datetime import datetime, timezone
from tinyflux.point import Point
T0 = datetime(2020, 1, 1, tzinfo=timezone.utc)

def h_v(v: Optional[str], compact: bool) -> bool:
    """
    pre: v != "_none"
    post: _
    """
    p = Point(time=T0, measurement="m", tags={"k": v})
    row = p._serialize_to_list(compact_key_prefixes=compact)
    q = Point()._deserialize_from_list(row)
    return q == p

def h_k(k: str, compact: bool) -> bool:
    """
    post: _
    """
    p = Point(time=T0, measurement="m", tags={k: "v"})
    row = p._serialize_to_list(compact_key_prefixes=compact)
    q = Point()._deserialize_from_list(row)
    return q._measurement == "m" and list(q._tags.items()) == [(k, "v")] and q._fields == {}

def h_fk(k: str, compact: bool) -> bool:
    """
    post: _
    """
    p = Point(time=T0, measurement="m", fields={k: 1})
    row = p._serialize_to_list(compact_key_prefixes=compact)
    q = Point()._deserialize_from_list(row)
    return q._measurement == "m" and list(q._fields.items()) == [(k, 1.0)] and q._tags == {}
