import os
from datetime import datetime, timezone, timedelta
from tinyflux import Point
from tinyflux.storages import CSVStorage
import tinyflux.storages as S
T0 = datetime(2020, 1, 1, tzinfo=timezone.utc)

class FakeFile:
    """Abstract file of symbolic length L with the cursor at symbolic pos; records what an append does."""
    def __init__(self, L, pos):
        self.L0 = L; self.L = L; self.pos = pos; self.ops = []; self.bad = []
    def seek(self, off, whence=0):
        self.ops.append("seek")
        if whence == os.SEEK_END: self.pos = self.L + off
        elif whence == 0: self.pos = off
        else: self.pos = self.pos + off
        return self.pos
    def write(self, s):
        self.ops.append("write")
        if self.pos < self.L0: self.bad.append("overwrite-old")
        self.pos = self.pos + len(s)
        if self.pos > self.L: self.L = self.pos
        return len(s)
    def flush(self): self.ops.append("flush")
    def fileno(self): return 99
    def truncate(self, size=None):
        self.ops.append("truncate")
        size = self.pos if size is None else size
        if size < self.L0: self.bad.append("truncate-old")
        self.L = size
    def read(self, *a): self.bad.append("read"); return ""
    def readline(self, *a): self.bad.append("read"); return ""
    def __iter__(self): self.bad.append("read"); return iter(())
    def tell(self): return self.pos
    def close(self): pass
class OsShim:
    SEEK_END = os.SEEK_END; path = os.path
    @staticmethod
    def fsync(fd): pass

def h_append(L: int, pos: int, flush: bool) -> bool:
    """
    pre: 0 <= pos <= L
    post: _
    """
    st = CSVStorage.__new__(CSVStorage)
    st._flush_on_insert = flush; st.kwargs = {}; st._temp_handle = None
    st._handle = FakeFile(L, pos)
    S.os = OsShim
    row = Point(time=T0, tags={"a": "b"})._serialize_to_list()
    st.append([row])
    f = st._handle
    return not f.bad and f.L >= L and f.ops.count("write") == 1 and len(f.ops) == (4 if flush else 2)
