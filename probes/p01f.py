from tinyflux import TinyFlux, Point, TimeQuery, TagQuery, FieldQuery, MeasurementQuery
from tinyflux.storages import MemoryStorage
import symtime2 as symtime
from symtime2 import SymTime
symtime.install()

def h_count_time(t0: int, t1: int, t2: int, g0: bool, g1: bool, g2: bool, x: int) -> bool:
    """
    post: _
    """
    db = TinyFlux(storage=MemoryStorage)
    ts = [t0, t1, t2]; gs = [g0, g1, g2]
    for i in range(3):
        db.insert(Point(time=SymTime(ts[i]), measurement="m", tags={"k": "a" if gs[i] else "b"}))
    got = db.count((TimeQuery() >= SymTime(x)) & (TagQuery().k == "a"))
    exp = sum(1 for i in range(3) if gs[i] and ts[i] >= x)
    return got == exp
