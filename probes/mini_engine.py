"""Feasibility probe (NOT framework code): a minimal proxy-based path engine.

Native execution of the real code with proxy ints/bools; every bool() of a symbolic
condition is a decision; decisions are explored depth-first by re-execution; z3 decides
feasibility of each side. Used only to measure what a lean engine would cost per path
compared with CrossHair on the same harness.
"""
import time
import z3


class Abort(BaseException):
    pass


class Engine:
    def __init__(self):
        self.solver = z3.Solver()
        self.prefix = []       # decisions to replay: list of bools
        self.trace = []        # decisions taken on this run: (bool, other_feasible)
        self.queries = 0
        self.solver_s = 0.0
        self.nvars = 0
        self.paths = 0

    def fresh_int(self, name):
        self.nvars += 1
        return SymInt(z3.Int(f"{name}_{self.nvars}"))

    def fresh_bool(self, name):
        self.nvars += 1
        return SymBool(z3.Bool(f"{name}_{self.nvars}"))

    def _check(self, *extra):
        t = time.perf_counter()
        r = self.solver.check(*extra)
        self.solver_s += time.perf_counter() - t
        self.queries += 1
        if r == z3.unknown:
            raise RuntimeError("unknown")
        return r == z3.sat

    def decide(self, cond):
        cond = z3.simplify(cond)
        if z3.is_true(cond):
            return True
        if z3.is_false(cond):
            return False
        i = len(self.trace)
        if i < len(self.prefix):
            v, other = self.prefix[i]
            self.trace.append((v, other))
            self.solver.add(cond if v else z3.Not(cond))
            return v
        can_t = self._check(cond)
        can_f = self._check(z3.Not(cond))
        if can_t:
            self.trace.append((True, can_f))
            self.solver.add(cond)
            return True
        assert can_f
        self.trace.append((False, False))
        self.solver.add(z3.Not(cond))
        return False

    def explore(self, fn, limit=10**9):
        """fn(engine) -> bool (may be SymBool); returns (all_ok, counterexample_model)"""
        global ENGINE
        ENGINE = self
        self.prefix = []
        while True:
            self.solver.reset()
            self.trace = []
            self.nvars = 0
            self.paths += 1
            ok = fn(self)
            if isinstance(ok, SymBool):
                ok = bool(ok)
            if not ok:
                self._check()
                return False, self.solver.model()
            # backtrack: flip the deepest decision whose other side is feasible & untried
            tr = self.trace
            while tr and not (tr[-1][1] and tr[-1][0] is True):
                tr.pop()
            if not tr or self.paths >= limit:
                return True, None
            self.prefix = tr[:-1] + [(False, False)]


ENGINE = None


def _z(x):
    if isinstance(x, SymInt):
        return x.e
    if isinstance(x, bool):
        raise TypeError
    if isinstance(x, int):
        return z3.IntVal(x)
    raise TypeError(type(x))


class SymBool:
    __slots__ = ("e",)

    def __init__(self, e):
        self.e = e

    def __bool__(self):
        return ENGINE.decide(self.e)

    def __and__(self, o):
        return SymBool(z3.And(self.e, o.e if isinstance(o, SymBool) else z3.BoolVal(bool(o))))

    __rand__ = __and__

    def __or__(self, o):
        return SymBool(z3.Or(self.e, o.e if isinstance(o, SymBool) else z3.BoolVal(bool(o))))

    __ror__ = __or__

    def __eq__(self, o):
        return SymBool(self.e == (o.e if isinstance(o, SymBool) else z3.BoolVal(bool(o))))

    def __hash__(self):
        raise TypeError("hash(SymBool)")


class SymInt:
    __slots__ = ("e",)

    def __init__(self, e):
        self.e = e

    @property
    def __class__(self):          # isinstance(x, int) is True, isinstance(x, bool) is False
        return int

    def _bin(self, o, f):
        try:
            return f(self.e, _z(o))
        except TypeError:
            return None

    def __lt__(self, o):
        r = self._bin(o, lambda a, b: a < b)
        return NotImplemented if r is None else SymBool(r)

    def __le__(self, o):
        r = self._bin(o, lambda a, b: a <= b)
        return NotImplemented if r is None else SymBool(r)

    def __gt__(self, o):
        r = self._bin(o, lambda a, b: a > b)
        return NotImplemented if r is None else SymBool(r)

    def __ge__(self, o):
        r = self._bin(o, lambda a, b: a >= b)
        return NotImplemented if r is None else SymBool(r)

    def __eq__(self, o):
        r = self._bin(o, lambda a, b: a == b)
        return False if r is None else SymBool(r)

    def __ne__(self, o):
        r = self._bin(o, lambda a, b: a != b)
        return True if r is None else SymBool(r)

    def __add__(self, o):
        return SymInt(self.e + _z(o))

    __radd__ = __add__

    def __sub__(self, o):
        return SymInt(self.e - _z(o))

    def __mul__(self, o):
        return SymInt(self.e * _z(o))

    __rmul__ = __mul__

    def __hash__(self):
        raise TypeError("hash(SymInt)")

    def __deepcopy__(self, memo):
        return self

    def __repr__(self):
        return f"SymInt({self.e})"


def choose(engine, name, n):
    """A symbolic selector in range(n), decided by forking."""
    v = engine.fresh_int(name)
    engine.solver.add(v.e >= 0, v.e < n)
    for i in range(n - 1):
        if v == i:
            return i
    return n - 1
