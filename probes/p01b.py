from datetime import datetime, timezone, timedelta
from tinyflux import TinyFlux, Point, TimeQuery, TagQuery, FieldQuery, MeasurementQuery
from tinyflux.storages import MemoryStorage

T0 = datetime(2020, 1, 1, tzinfo=timezone.utc)
TS = [T0 + timedelta(seconds=i) for i in range(8)]

def h_count_field(f0: int, f1: int, f2: int, g0: bool, g1: bool, g2: bool, x: int) -> bool:
    """
    post: _
    """
    db = TinyFlux(storage=MemoryStorage)
    fs = [f0, f1, f2]; gs = [g0, g1, g2]
    for i in range(3):
        db.insert(Point(time=TS[i], measurement="m", tags={"k": "a" if gs[i] else "b"}, fields={"f": fs[i]}))
    db.remove(TagQuery().k == "a")
    got = db.count(~(FieldQuery().f >= x) & (TagQuery().k == "b"))
    exp = sum(1 for i in range(3) if (not gs[i]) and not (fs[i] >= x))
    return got == exp
