"""Concrete confirmation of the defects DESIGN.md §4 'Expect' predicts from reading (real code, real datetime)."""
import os
from datetime import datetime, timezone, timedelta
from tinyflux import TinyFlux, Point, TimeQuery, TagQuery, FieldQuery, MeasurementQuery
from tinyflux.storages import MemoryStorage
T0 = datetime(2020, 1, 1, tzinfo=timezone.utc)
def mem(ai=True): return TinyFlux(storage=MemoryStorage, auto_index=ai)
out = {}
# noop served by the index
db = mem(); db.insert(Point(time=T0)); db.insert(Point(time=T0, tags={"k": "a"}))
out["tag noop count (want 2)"] = db.count(TagQuery().noop())
out["field noop count (want 2)"] = db.count(FieldQuery().noop())
# map in field path
db = mem(); db.insert(Point(time=T0, fields={"f": 1})); db.insert(Point(time=T0, fields={"f": 2}))
q = FieldQuery().f.map(lambda v: v + 1) == 2
out["field map index/scan"] = (db.count(q), sum(1 for p in db if q(p)))
q = TimeQuery().map(lambda t: t + timedelta(days=1)) > T0 + timedelta(hours=1)
out["time map index/scan"] = (db.count(q), sum(1 for p in db if q(p)))
# get_field_values leakage
db = mem(); db.insert(Point(time=T0, measurement="m", fields={"f": 1})); db.insert(Point(time=T0, measurement="n", fields={"f": 2}))
out["get_field_values('f','m') (want [1])"] = db.get_field_values("f", "m")
# CSV len
p = "/dev/shm/vf_r4/a.csv"
db = TinyFlux(p, auto_index=False); db.insert(Point(time=T0, tags={"k": "l\nl"}))
out["csv len with LF in tag (want 1)"] = len(db); db.close()
# update time non-UTC
p = "/dev/shm/vf_r4/b.csv"
db = TinyFlux(p); db.insert(Point(time=T0))
t2 = datetime(2021, 1, 1, 12, tzinfo=timezone(timedelta(hours=5)))
db.update_all(time=t2); got = db.all()[0].time
out["update time +05:00 (want same instant)"] = (got == t2, str(got)); db.close()
# commutativity of mixed simple/compound
a, b, c = TagQuery().a == "1", TagQuery().b == "2", TagQuery().c == "3"
out["a&(b&c) == (b&c)&a (want True)"] = (a & (b & c)) == ((b & c) & a)
# measurement ""
db = mem(); db.insert(Point(time=T0, measurement="m")); db.insert(Point(time=T0, measurement="n"))
out['measurement("").count(noop) (want 0)'] = db.measurement("").count(TimeQuery().noop())
# aborted insert_multiple, auto_index False
db = mem(ai=False)
try: db.insert_multiple([Point(time=T0), "x"])
except TypeError: pass
out["after aborted insert_multiple: index valid / count (want count 1)"] = (db.index.valid, db.count(TimeQuery().noop()), len(db.all()))
# int > 2**53 through CSV
p = "/dev/shm/vf_r4/c.csv"
db = TinyFlux(p); db.insert(Point(time=T0, fields={"f": 2**53 + 1})); db.close()
out["2**53+1 round trip"] = TinyFlux(p).all()[0].fields["f"] == 2**53 + 1
# reset then insert then time query
db = mem()
for i in range(3): db.insert(Point(time=T0 + timedelta(seconds=i)))
db.remove_all(); db.insert(Point(time=T0))
out["after remove_all+insert: count(Time>=T0) (want 1)"] = db.count(TimeQuery() >= T0)
# callable raising mid-update, memory storage
db = mem(ai=False)
for i in range(2): db.insert(Point(time=T0 + timedelta(seconds=i), tags={"k": str(i)}))
def boom(t):
    if t.get("k") == "1": raise RuntimeError
    return {"k": "changed"}
try: db.update_all(tags=boom)
except RuntimeError: pass
out["after raising callable: tags of point 0 (want '0')"] = db.all()[0].tags
for k, v in out.items(): print(f"{k}: {v}")
