import sys, time, importlib, json, collections
import z3
from crosshair.core_and_libs import analyze_function, run_checkables
from crosshair.options import AnalysisOptionSet
from crosshair.options import AnalysisKind
import crosshair.statespace as ss

import crosshair.core as _core, datetime as _dt
for _e in (_dt.datetime, _dt.date, _dt.time, _dt.timedelta, _dt.timezone):
    _core._PATCH_REGISTRATIONS.pop(_e, None)
STATS = collections.Counter()
_orig = ss.solver_is_sat
def timed(solver, *exprs):
    t = time.perf_counter()
    r = _orig(solver, *exprs)
    STATS['smt_queries'] += 1
    STATS['smt_time_us'] += int((time.perf_counter() - t) * 1e6)
    return r
ss.solver_is_sat = timed

def run(modname, fname, timeout=120):
    mod = importlib.import_module(modname)
    fn = getattr(mod, fname)
    stats = collections.Counter()
    opts = AnalysisOptionSet(analysis_kind=[AnalysisKind.PEP316], per_condition_timeout=timeout, report_all=True, stats=stats,
                             max_uninteresting_iterations=10**9, per_path_timeout=30.0)
    t = time.time()
    msgs = run_checkables(analyze_function(fn, opts))
    return {"fn": fname, "wall": round(time.time() - t, 2), "msgs": [(m.state.name, m.message) for m in msgs], "ch_stats": dict(stats), "smt": dict(STATS)}

if __name__ == "__main__":
    print(json.dumps(run(sys.argv[1], sys.argv[2], float(sys.argv[3]) if len(sys.argv) > 3 else 120), indent=1))
