"""Calibration probe for family (I): arbitrary valid state (N=3), remove(Tag.k == 'a'), then count(Time >= x)."""
from tinyflux import TinyFlux, Point, TimeQuery, TagQuery
from tinyflux.storages import MemoryStorage
import symtime2 as symtime
from symtime2 import SymTime
symtime.install()
TAGS = [{}, {"k": "a"}, {"k": "b"}]

def h_remove_then_time(t0: int, t1: int, t2: int, s0: int, s1: int, s2: int, valid: bool, ai: bool, x: int) -> bool:
    """
    pre: 0 <= s0 < 3 and 0 <= s1 < 3 and 0 <= s2 < 3
    post: _
    """
    ts = [t0, t1, t2]; ss = [s0, s1, s2]
    pts = [Point(time=SymTime(ts[i]), measurement="m", tags=dict(TAGS[ss[i]])) for i in range(3)]
    db = TinyFlux(storage=MemoryStorage, auto_index=ai)
    db._storage._memory = list(pts)
    if valid:
        db._index.build(pts)
    else:
        db._index.invalidate()
    n = db.remove(TagQuery().k == "a")
    keep = [i for i in range(3) if ss[i] != 1]
    if n != 3 - len(keep):
        return False
    got = db.count(TimeQuery() >= SymTime(x))
    exp = sum(1 for i in keep if ts[i] >= x)
    return got == exp
