import sys, time
sys.setrecursionlimit(10000)
from tinyflux import TinyFlux, Point, TimeQuery, TagQuery
from tinyflux.storages import MemoryStorage
import symtime2 as symtime
from symtime2 import SymTime
symtime.install()
import mini_engine as me
TAGS = [{}, {"k": "a"}, {"k": "b"}]

def harness(eng):
    ts = [eng.fresh_int("t") for _ in range(3)]
    x = eng.fresh_int("x")
    ss = [me.choose(eng, "s", 3) for _ in range(3)]
    valid = bool(eng.fresh_bool("valid")); ai = bool(eng.fresh_bool("ai"))
    pts = [Point(time=SymTime(ts[i]), measurement="m", tags=dict(TAGS[ss[i]])) for i in range(3)]
    db = TinyFlux(storage=MemoryStorage, auto_index=ai)
    db._storage._memory = list(pts)
    if valid:
        db._index.build(pts)
    else:
        db._index.invalidate()
    n = db.remove(TagQuery().k == "a")
    keep = [i for i in range(3) if ss[i] != 1]
    if n != 3 - len(keep):
        return False
    got = db.count(TimeQuery() >= SymTime(x))
    exp = 0
    for i in keep:
        if ts[i] >= x:
            exp += 1
    return got == exp

eng = me.Engine()
t = time.time()
ok, model = eng.explore(harness)
print("ok", ok, "paths", eng.paths, "queries", eng.queries, "solver_s", round(eng.solver_s, 2), "wall", round(time.time() - t, 2))
if model is not None: print(model)
