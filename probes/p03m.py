"""Probe: lean engine with symbolic field values through validate_fields, update (deepcopy, dict ==), sorted search."""
import sys, time
from tinyflux import TinyFlux, Point, TimeQuery, TagQuery, FieldQuery
from tinyflux.storages import MemoryStorage
import symtime2 as symtime
from symtime2 import SymTime
symtime.install()
import mini_engine as me

def harness(eng):
    N = 3
    ts = [eng.fresh_int("t") for _ in range(N)]
    fs = [eng.fresh_int("f") for _ in range(N)]
    x = eng.fresh_int("x"); y = eng.fresh_int("y")
    ai = bool(eng.fresh_bool("ai"))
    db = TinyFlux(storage=MemoryStorage, auto_index=ai)
    for i in range(N):
        db.insert(Point(time=SymTime(ts[i]), measurement="m", tags={"k": "a"}, fields={"f": fs[i]}))
    n = db.update(FieldQuery().f < x, fields={"f": y})
    # model
    mf = []; changed = 0
    for i in range(N):
        if fs[i] < x:
            mf.append(y)
            if fs[i] != y: changed += 1
        else:
            mf.append(fs[i])
    if n != changed:
        return False
    got = db.search(FieldQuery().f >= x, sorted=True)
    exp = [(ts[i], mf[i], i) for i in range(N) if mf[i] >= x]
    # stable sort by time
    srt = []
    for r in exp:                      # stable insertion sort by time
        j = len(srt)
        while j > 0 and r[0] < srt[j - 1][0]:
            j -= 1
        srt.insert(j, r)
    exp = srt
    if len(got) != len(exp):
        return False
    for g, e in zip(got, exp):
        if not (g.time._us == e[0]) or not (g.fields["f"] == e[1]):
            return False
    return True

eng = me.Engine(); t = time.time()
ok, model = eng.explore(harness)
print("ok", ok, "paths", eng.paths, "queries", eng.queries, "solver_s", round(eng.solver_s, 2), "wall", round(time.time() - t, 2))
if model is not None: print(model)
