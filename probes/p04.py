import os, tempfile, shutil, csv
from datetime import datetime, timezone, timedelta
from tinyflux import TinyFlux, Point, TimeQuery, TagQuery, FieldQuery, MeasurementQuery

T0 = datetime(2020, 1, 1, tzinfo=timezone.utc)
ENC = [None, "utf-8", "utf-16", "latin-1"]
CNT = [0]
VALS = ["a", "é", "x,y", 'q"q', "l\nl", "r\rr"]

def indep_read(path, enc, kw):
    with open(path, newline="", encoding=enc) as f:
        return [Point()._deserialize_from_list(r) for r in csv.reader(f, **kw)]

def h_file_matches(enc_i: int, flush: bool, v0: int, v1: int, op: int, g0: bool) -> bool:
    """
    pre: 0 <= enc_i < 4 and 0 <= v0 < 6 and 0 <= v1 < 6 and 0 <= op < 3
    post: _
    """
    CNT[0] += 1
    d = os.path.join("/dev/shm", f"vp04_{os.getpid()}_{CNT[0]}")
    os.makedirs(d)
    tcnt = [0]
    def NTF(mode="w+b", newline=None, delete=True, **kw):
        tcnt[0] += 1
        f = open(os.path.join(d, f"tmp{tcnt[0]}"), mode, newline=newline, **kw)
        return f
    import tinyflux.storages as S
    S.NamedTemporaryFile = NTF
    try:
        path = os.path.join(d, "db.csv")
        enc = ENC[enc_i]
        db = TinyFlux(path, encoding=enc, flush_on_insert=flush)
        pts = [Point(time=T0, tags={"k": VALS[v0], "g": "a" if g0 else "b"}), Point(time=T0 + timedelta(seconds=1), tags={"k": VALS[v1], "g": "b"})]
        for p in pts:
            db.insert(p)
        exp = list(pts)
        if op == 1:
            db.update(TagQuery().g == "a", tags={"z": "1"})
            if g0:
                exp[0] = Point(time=T0, tags={"k": VALS[v0], "g": "a", "z": "1"})
        elif op == 2:
            db.remove(TagQuery().g == "a")
            if g0:
                exp = exp[1:]
        db.close()
        got = indep_read(path, enc, {})
        return got == exp
    finally:
        shutil.rmtree(d, ignore_errors=True)
