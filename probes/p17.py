import re
from typing import Optional
from datetime import datetime, timezone
from tinyflux import Point, TagQuery, FieldQuery, MeasurementQuery, TimeQuery
T0 = datetime(2020, 1, 1, tzinfo=timezone.utc)

def h_regex_flags(v: str, f1: bool, f2: bool) -> bool:
    """
    pre: len(v) <= 2
    post: _
    """
    q1 = TagQuery().k.matches("a", flags=re.I if f1 else 0)
    q2 = TagQuery().k.matches("a", flags=re.I if f2 else 0)
    p = Point(time=T0, tags={"k": v})
    if q1 == q2:
        return q1(p) == q2(p) and hash(q1) == hash(q2)
    return True

def h_total(v: Optional[str], present: bool) -> bool:
    """
    post: _ == (present and v is not None and len(v) >= 1 and v[0] == "a")
    """
    q = TagQuery().k.matches("a")
    p = Point(time=T0, tags={"k": v} if present else {})
    return q(p)

def h_cmp(v: Optional[int], present: bool, x: int) -> bool:
    """
    post: _ == (present and v is not None and v < x)
    """
    q = FieldQuery().k < x
    p = Point(time=T0, fields={"k": v} if present else {})
    return q(p)
