"""Probe: can the CrossHair back end hand out symbolic values on demand from pooled arguments, and honour assume()?"""
from crosshair.statespace import IgnoreAttempt
class Pool:
    def __init__(self, ints, bools): self.ints = list(ints); self.bools = list(bools)
    def int(self): return self.ints.pop()
    def bool(self): return self.bools.pop()
    def assume(self, c):
        if not c: raise IgnoreAttempt("assume")
    def choose(self, n):
        v = self.int(); self.assume(0 <= v < n)
        for i in range(n - 1):
            if v == i: return i
        return n - 1

def h_pool(i0: int, i1: int, i2: int, i3: int, b0: bool, b1: bool) -> bool:
    """
    post: _
    """
    sym = Pool([i0, i1, i2, i3], [b0, b1])
    a = sym.choose(3); b = sym.choose(2); x = sym.int()
    sym.assume(x > 10)
    return (a, b) != (2, 1) or x != 12
