import sys, json, drv, importlib
r = drv.run(sys.argv[1], sys.argv[2], float(sys.argv[3]))
mod = importlib.import_module(sys.argv[1])
r["fail"] = getattr(mod, "FAIL", None)
print(json.dumps(r, default=str))
