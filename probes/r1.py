from datetime import datetime, timezone, timedelta
from tinyflux import TinyFlux, Point, TimeQuery, TagQuery, FieldQuery
from tinyflux.storages import MemoryStorage
T0 = datetime(2020, 1, 1, tzinfo=timezone.utc)
for ai in (True, False):
    db = TinyFlux(storage=MemoryStorage, auto_index=ai)
    for i, f in enumerate([-1, -1, 0]):
        db.insert(Point(time=T0 + timedelta(seconds=i), tags={"k": "b"}, fields={"f": f}))
    q = ~(FieldQuery().f >= 0) & (TagQuery().k == "b")
    print(ai, db.count(q), len(db.search(q)), db.contains(q))
# time query after partial remove
db = TinyFlux(storage=MemoryStorage)
for i in range(3):
    db.insert(Point(time=T0 + timedelta(seconds=i), tags={"k": str(i)}))
db.remove(TagQuery().k == "1")
print(db.count(TimeQuery() >= T0 + timedelta(seconds=2)), len(db.search(TimeQuery() >= T0 + timedelta(seconds=2))))
