import sys
def q(kind, lo, hi):
    M = "((_ to_fp 11 53) RNE 1000000.0)"
    def ts(u): return f"(fp.div RNE ((_ to_fp 11 53) RNE {u}) {M})"
    def bv(n): return f"(_ bv{n % 2**64} 64)"
    s = ["(set-logic QF_BVFP)", "(declare-const us (_ BitVec 64))",
         f"(assert (bvsle {bv(lo)} us))", f"(assert (bvsle us {bv(hi)}))"]
    if kind == "rt":
        s += [f"(define-fun d () (_ FloatingPoint 11 53) {ts('us')})",
              "(define-fun ip () (_ FloatingPoint 11 53) (fp.roundToIntegral RTZ d))",
              "(define-fun fl () (_ FloatingPoint 11 53) (fp.sub RNE d ip))",
              f"(define-fun fl2 () (_ FloatingPoint 11 53) (fp.mul RNE fl {M}))",
              "(define-fun r () (_ FloatingPoint 11 53) (fp.roundToIntegral RNE fl2))",
              f"(define-fun ge () Bool (fp.geq r {M}))",
              "(define-fun lt0 () Bool (fp.lt r ((_ to_fp 11 53) RNE 0.0)))",
              f"(define-fun r2 () (_ FloatingPoint 11 53) (ite ge (fp.sub RNE r {M}) (ite lt0 (fp.add RNE r {M}) r)))",
              "(define-fun ip2 () (_ FloatingPoint 11 53) (ite ge (fp.add RNE ip ((_ to_fp 11 53) RNE 1.0)) (ite lt0 (fp.sub RNE ip ((_ to_fp 11 53) RNE 1.0)) ip)))",
              f"(define-fun back () (_ BitVec 64) (bvadd (bvmul ((_ fp.to_sbv 64) RTZ ip2) {bv(1000000)}) ((_ fp.to_sbv 64) RTZ r2)))",
              "(assert (not (= back us)))"]
    else:
        s += [f"(assert (not (fp.lt {ts('us')} {ts('(bvadd us ' + bv(1) + ')')})))"]
    s += ["(check-sat)", "(get-model)"]
    return "\n".join(s)
if __name__ == "__main__":
    print(q(sys.argv[1], int(sys.argv[2]), int(sys.argv[3])))
