import os, tempfile, csv
from datetime import datetime, timezone, timedelta
from tinyflux import TinyFlux, Point, TagQuery
T0 = datetime(2020, 1, 1, tzinfo=timezone.utc)
d = tempfile.mkdtemp()
for flush in (True, False):
    for enc in (None, "utf-16", "latin-1"):
        path = os.path.join(d, f"db_{flush}_{enc}.csv")
        db = TinyFlux(path, flush_on_insert=flush, encoding=enc)
        db.insert(Point(time=T0, tags={"g": "a", "k": "é"}))
        db.insert(Point(time=T0 + timedelta(seconds=1), tags={"g": "b"}))
        try:
            n = db.update(TagQuery().g == "a", tags={"z": "1"})
            db.close()
            db2 = TinyFlux(path, encoding=enc)
            print(flush, enc, n, db2.all())
        except Exception as e:
            print(flush, enc, "EXC", type(e).__name__, e)
print(os.listdir(tempfile.gettempdir())[:5])
