"""LIA/LRA model of CPython's aware-datetime .timestamp() and datetime.fromtimestamp() for one binade.
x = us/10^6 in [2^E, 2^(E+1)); doubles there are m/2^k with k = 52-E, m in [2^52, 2^53] (top endpoint allowed)."""
import z3, time, sys
M = 10**6
def binade(E, sign):
    k = 52 - E
    us, m, ip, r = z3.Ints('us m ip r')
    fl2 = z3.Real('fl2')
    s = z3.Solver()
    two_k = 2**k if k >= 0 else None
    assert k >= 0
    # us/M in [2^E, 2^(E+1)):  us*2^k in [2^52*M, 2^53*M)
    s.add(us * two_k >= (2**52) * M, us * two_k < (2**53) * M, us >= 1)
    # d = m/2^k is a double nearest to us/M (ties: either neighbour allowed -> over-approximation)
    s.add(m >= 2**52, m <= 2**53)
    s.add(2 * (us * two_k - m * M) <= M, 2 * (m * M - us * two_k) <= M)
    if sign > 0:
        # ip = trunc(d) = floor(m / 2^k)
        s.add(ip * two_k <= m, m < (ip + 1) * two_k)
        p_num = (m - ip * two_k) * M            # fl*M = p_num / 2^k, exact real
        # fl2 = RNE(p) over-approximated by relative error 2^-53
        s.add(z3.RealVal(2**53) * (fl2 * two_k - z3.ToReal(p_num)) <= z3.ToReal(p_num),
              z3.RealVal(2**53) * (z3.ToReal(p_num) - fl2 * two_k) <= z3.ToReal(p_num))
        # r = nearest integer to fl2 (either on ties)
        s.add(2 * (z3.ToReal(r) - fl2) <= 1, 2 * (fl2 - z3.ToReal(r)) <= 1)
        back = ip * M + r   # the >= M adjustment gives the same sum
        return s, us, m, back
    else:
        # negative instant -us: d = -m/2^k, modf: ip' = -floor(m/2^k) (trunc toward zero), fl = -(m mod 2^k)/2^k
        s.add(ip * two_k <= m, m < (ip + 1) * two_k)
        p_num = (m - ip * two_k) * M
        s.add(z3.RealVal(2**53) * (fl2 * two_k - z3.ToReal(p_num)) <= z3.ToReal(p_num),
              z3.RealVal(2**53) * (z3.ToReal(p_num) - fl2 * two_k) <= z3.ToReal(p_num))
        s.add(2 * (z3.ToReal(r) - fl2) <= 1, 2 * (fl2 - z3.ToReal(r)) <= 1)
        # floatpart = -r ; if < 0: += M, intpart -= 1  => same sum: -(ip*M + r)
        back = ip * M + r
        return s, us, m, back
tot = 0; t0 = time.time()
res = {}
for E in range(-20, 34):
    for sign in (1, -1):
        s, us, m, back = binade(E, sign)
        s.push(); s.add(back != us); r1 = s.check(); s.pop()
        # strict monotonic: exists us, us+1 in/near binade mapping to same double m?
        s.push(); s.add(2 * ((us + 1) * 2**(52 - E) - m * M) <= M, 2 * (m * M - (us + 1) * 2**(52 - E)) <= M); r2 = s.check()
        res[(E, sign)] = (str(r1), str(r2), s.model()[us] if str(r2) == "sat" else None); s.pop()
print({k: v for k, v in res.items() if v[0] != "unsat" or v[1] != "unsat"}, round(time.time() - t0, 2), "s for", len(res) * 2, "queries")
