"""Feasibility probe for E2 (NOT framework code): interpret the *source* of
Point._serialize_to_list / Point._deserialize_from_list symbolically with z3 strings.

Scope of the probe: measurement, tag keys/values, field keys as unbounded z3 strings;
field values None only; time as an opaque token. Decisions are explored depth-first by
re-execution (same scheme as mini_engine).
"""
import ast
import inspect
import textwrap
import time
import z3

from tinyflux.point import Point


class Unsupported(Exception):
    pass


class Engine:
    def __init__(self):
        self.solver = z3.Solver()
        self.prefix = []
        self.trace = []
        self.queries = 0
        self.paths = 0

    def check(self, *extra):
        self.queries += 1
        r = self.solver.check(*extra)
        if r == z3.unknown:
            raise RuntimeError("unknown")
        return r == z3.sat

    def decide(self, cond):
        cond = z3.simplify(cond)
        if z3.is_true(cond):
            return True
        if z3.is_false(cond):
            return False
        i = len(self.trace)
        if i < len(self.prefix):
            v, other = self.prefix[i]
            self.trace.append((v, other))
            self.solver.add(cond if v else z3.Not(cond))
            return v
        can_t = self.check(cond)
        can_f = self.check(z3.Not(cond))
        if can_t:
            self.trace.append((True, can_f))
            self.solver.add(cond)
            return True
        self.trace.append((False, False))
        self.solver.add(z3.Not(cond))
        return False

    def explore(self, fn):
        self.prefix = []
        while True:
            self.solver.reset()
            self.trace = []
            self.paths += 1
            ok = fn(self)
            if not ok:
                self.check()
                return False, self.solver.model()
            tr = self.trace
            while tr and not (tr[-1][1] and tr[-1][0] is True):
                tr.pop()
            if not tr:
                return True, None
            self.prefix = tr[:-1] + [(False, False)]


# ---------------------------------------------------------------- values
class ZS:
    """symbolic str"""
    def __init__(self, e):
        self.e = e if not isinstance(e, str) else z3.StringVal(e)


class ZB:
    def __init__(self, e):
        self.e = e


class Time:
    """opaque UTC instant; iso()/fromiso() are mutually inverse tokens"""
    def __init__(self, tok, aware=True, iso=False):
        self.tok, self.aware, self.iso = tok, aware, iso


class AssocDict:
    def __init__(self, pairs=None):
        self.pairs = list(pairs or [])


class PyObj:
    """stands for a Point instance under interpretation"""
    def __init__(self, **attrs):
        self.__dict__.update(attrs)


class BreakEx(Exception):
    pass


class ContinueEx(Exception):
    pass


class ReturnEx(Exception):
    def __init__(self, v):
        self.v = v


class PyRaise(Exception):
    def __init__(self, exc):
        self.exc = exc


def zs(v):
    return v.e if isinstance(v, ZS) else z3.StringVal(v)


class Interp:
    def __init__(self, eng, cls_consts):
        self.eng = eng
        self.consts = cls_consts

    def truth(self, v):
        if isinstance(v, ZB):
            return self.eng.decide(v.e)
        if isinstance(v, ZS):
            return self.eng.decide(z3.Length(v.e) > 0)
        if isinstance(v, (Time, PyObj)):
            return True
        if isinstance(v, AssocDict):
            return bool(v.pairs)
        return bool(v)

    # ---- expressions
    def ev(self, n, env):
        m = getattr(self, "e_" + type(n).__name__, None)
        if m is None:
            raise Unsupported(f"expr {type(n).__name__} line {n.lineno}")
        return m(n, env)

    def e_Constant(self, n, env):
        return n.value

    def e_Name(self, n, env):
        if n.id in env:
            return env[n.id]
        if n.id in ("len", "str", "float", "int", "datetime", "timezone", "Exception"):
            return ("builtin", n.id)
        raise Unsupported(f"name {n.id}")

    def e_Attribute(self, n, env):
        base = self.ev(n.value, env)
        if isinstance(base, PyObj):
            if n.attr in base.__dict__:
                return base.__dict__[n.attr]
            if n.attr in self.consts:
                return self.consts[n.attr]
            raise Unsupported(f"attr {n.attr}")
        return ("method", base, n.attr)

    def e_IfExp(self, n, env):
        return self.ev(n.body, env) if self.truth(self.ev(n.test, env)) else self.ev(n.orelse, env)

    def e_BoolOp(self, n, env):
        v = None
        for sub in n.values:
            v = self.ev(sub, env)
            t = self.truth(v)
            if isinstance(n.op, ast.Or) and t:
                return v
            if isinstance(n.op, ast.And) and not t:
                return v
        return v

    def e_JoinedStr(self, n, env):
        parts = []
        for v in n.values:
            if isinstance(v, ast.Constant):
                parts.append(v.value)
            else:
                if v.conversion != -1 or v.format_spec is not None:
                    raise Unsupported("format spec")
                parts.append(self.to_str(self.ev(v.value, env)))
        if all(isinstance(p, str) for p in parts):
            return "".join(parts)
        return ZS(z3.Concat(*[zs(p) for p in parts])) if len(parts) > 1 else parts[0]

    def to_str(self, v):
        if isinstance(v, (str, ZS)):
            return v
        raise Unsupported(f"str() of {type(v).__name__}")

    def e_Compare(self, n, env):
        if len(n.ops) != 1:
            raise Unsupported("chained compare")
        a = self.ev(n.left, env)
        b = self.ev(n.comparators[0], env)
        op = n.ops[0]
        if isinstance(op, ast.Is):
            return a is b
        if isinstance(op, ast.IsNot):
            return a is not b
        if isinstance(op, ast.Eq):
            if isinstance(a, ZS) or isinstance(b, ZS):
                if a is None or b is None:
                    return False
                return ZB(zs(a) == zs(b))
            return a == b
        if isinstance(op, ast.Lt):
            return a < b
        raise Unsupported(f"cmp {type(op).__name__}")

    def e_BinOp(self, n, env):
        a, b = self.ev(n.left, env), self.ev(n.right, env)
        if isinstance(n.op, ast.Add) and isinstance(a, int) and isinstance(b, int):
            return a + b
        raise Unsupported("binop")

    def e_Subscript(self, n, env):
        base = self.ev(n.value, env)
        if isinstance(n.slice, ast.Slice):
            if n.slice.upper is not None or n.slice.step is not None:
                raise Unsupported("slice form")
            lo = self.ev(n.slice.lower, env)
            if isinstance(base, str):
                return base[lo:]
            if isinstance(base, ZS):
                ln = z3.Length(base.e)
                return ZS(z3.If(ln >= lo, z3.SubString(base.e, lo, ln - lo), z3.StringVal("")))
            raise Unsupported("slice base")
        idx = self.ev(n.slice, env)
        if isinstance(base, (tuple, list)):
            return base[idx]
        if isinstance(base, str):
            return base[idx]
        if isinstance(base, ZS):
            if not self.eng.decide(z3.Length(base.e) > idx):
                raise PyRaise(IndexError("string index out of range"))
            return ZS(z3.SubString(base.e, idx, 1))
        raise Unsupported("subscript base")

    def e_Dict(self, n, env):
        if n.keys:
            raise Unsupported("dict literal with items")
        return AssocDict()

    def e_Tuple(self, n, env):
        out = []
        for el in n.elts:
            if isinstance(el, ast.Starred):
                out.extend(self.ev(el.value, env))
            else:
                out.append(self.ev(el, env))
        return tuple(out)

    def e_GeneratorExp(self, n, env):
        out = []

        def rec(gi, env2):
            if gi == len(n.generators):
                out.append(self.ev(n.elt, env2))
                return
            g = n.generators[gi]
            if g.ifs:
                raise Unsupported("gen ifs")
            for item in self.iterate(self.ev(g.iter, env2)):
                env3 = dict(env2)
                self.bind(g.target, item, env3)
                rec(gi + 1, env3)

        rec(0, env)
        return out

    def iterate(self, v):
        if isinstance(v, (list, tuple)):
            return list(v)
        raise Unsupported(f"iterate {type(v).__name__}")

    def bind(self, target, val, env):
        if isinstance(target, ast.Name):
            env[target.id] = val
        elif isinstance(target, ast.Tuple):
            for t, v in zip(target.elts, val):
                self.bind(t, v, env)
        else:
            raise Unsupported("bind target")

    def e_Call(self, n, env):
        f = self.ev(n.func, env)
        args = [self.ev(a, env) for a in n.args]
        kw = {k.arg: self.ev(k.value, env) for k in n.keywords}
        if f == ("builtin", "len"):
            return len(args[0])
        if f == ("builtin", "str"):
            return self.to_str(args[0])
        if f == ("builtin", "float"):
            s = args[0]
            if isinstance(s, str):
                try:
                    return float(s)
                except ValueError as e:
                    raise PyRaise(e)
            raise Unsupported("float() of symbolic string (field values are None-only in this probe)")
        if isinstance(f, tuple) and f[0] == "method":
            _, base, name = f
            if isinstance(base, AssocDict) and name == "items":
                return list(base.pairs)
            if isinstance(base, Time) and name == "replace":
                if kw == {"tzinfo": None}:
                    return Time(base.tok, aware=False, iso=base.iso)
                return Time(base.tok, aware=True, iso=base.iso)
            if isinstance(base, Time) and name == "isoformat":
                return Time(base.tok, aware=base.aware, iso=True)
            if base == ("builtin", "datetime") and name == "fromisoformat":
                t = args[0]
                if isinstance(t, Time) and t.iso:
                    return Time(t.tok, aware=t.aware, iso=False)
                raise Unsupported("fromisoformat of non-iso")
            if base == ("builtin", "timezone") and name == "utc":
                return "UTC"
            if name == "isdigit":
                if isinstance(base, str):
                    return base.isdigit()
                if isinstance(base, ZS):
                    return ZB(z3.InRe(base.e, z3.Plus(z3.Range("0", "9"))))
            raise Unsupported(f"method {name} on {type(base).__name__}")
        raise Unsupported(f"call {ast.dump(n.func)[:60]}")

    # ---- statements
    def run(self, body, env):
        for st in body:
            m = getattr(self, "s_" + type(st).__name__, None)
            if m is None:
                raise Unsupported(f"stmt {type(st).__name__} line {st.lineno}")
            m(st, env)

    def s_Expr(self, st, env):
        if isinstance(st.value, ast.Constant):
            return
        self.ev(st.value, env)

    def s_Assign(self, st, env):
        v = self.ev(st.value, env)
        for t in st.targets:
            self.assign(t, v, env)

    def s_AnnAssign(self, st, env):
        self.assign(st.target, self.ev(st.value, env), env)

    def s_AugAssign(self, st, env):
        cur = self.ev(st.target, env)
        v = self.ev(st.value, env)
        if isinstance(st.op, ast.Add) and isinstance(cur, int) and isinstance(v, int):
            self.assign(st.target, cur + v, env)
        else:
            raise Unsupported("augassign")

    def assign(self, t, v, env):
        if isinstance(t, ast.Name):
            env[t.id] = v
        elif isinstance(t, ast.Attribute):
            self.ev(t.value, env).__dict__[t.attr] = v
        elif isinstance(t, ast.Subscript):
            d = self.ev(t.value, env)
            k = self.ev(t.slice, env)
            if not isinstance(d, AssocDict):
                raise Unsupported("subscript store")
            # dict semantics: overwrite an equal key, else append
            for i, (k0, _) in enumerate(d.pairs):
                same = self.e_Compare_eq(k0, k)
                if same:
                    d.pairs[i] = (k0, v)
                    return
            d.pairs.append((k, v))
        else:
            raise Unsupported("assign target")

    def e_Compare_eq(self, a, b):
        if isinstance(a, ZS) or isinstance(b, ZS):
            return self.eng.decide(zs(a) == zs(b))
        return a == b

    def s_If(self, st, env):
        self.run(st.body if self.truth(self.ev(st.test, env)) else st.orelse, env)

    def s_While(self, st, env):
        n = 0
        while self.truth(self.ev(st.test, env)):
            n += 1
            if n > 64:
                raise Unsupported("loop bound")
            try:
                self.run(st.body, env)
            except BreakEx:
                break
            except ContinueEx:
                continue

    def s_Break(self, st, env):
        raise BreakEx()

    def s_Continue(self, st, env):
        raise ContinueEx()

    def s_Return(self, st, env):
        raise ReturnEx(self.ev(st.value, env))

    def s_Try(self, st, env):
        try:
            self.run(st.body, env)
        except PyRaise:
            if len(st.handlers) != 1:
                raise Unsupported("handlers")
            self.run(st.handlers[0].body, env)


def load(fn):
    src = textwrap.dedent(inspect.getsource(fn))
    return ast.parse(src).body[0]


SER = load(Point._serialize_to_list)
DES = load(Point._deserialize_from_list)
CONSTS = {k: getattr(Point, k) for k in (
    "_none_str", "_default_tag_key_prefix", "_default_field_key_prefix",
    "_compact_tag_key_prefix", "_compact_field_key_prefix")}


def call(defn, interp, **args):
    env = dict(args)
    for a, d in zip(reversed(defn.args.args), reversed(defn.args.defaults)):
        env.setdefault(a.arg, ast.literal_eval(d))
    try:
        interp.run(defn.body, env)
    except ReturnEx as r:
        return r.v
    return None


def obligation(n_tags, n_fields, compact, exclude_known):
    def run(eng):
        it = Interp(eng, CONSTS)
        m = ZS(z3.String("m"))
        tags = AssocDict([(ZS(z3.String(f"tk{i}")), ZS(z3.String(f"tv{i}"))) for i in range(n_tags)])
        # tag value None variant decided by a fresh bool
        for i in range(n_tags):
            if eng.decide(z3.Bool(f"tv{i}_is_none")):
                tags.pairs[i] = (tags.pairs[i][0], None)
        fields = AssocDict([(ZS(z3.String(f"fk{i}")), None) for i in range(n_fields)])
        # dict invariant: keys pairwise distinct
        for d in (tags, fields):
            for i in range(len(d.pairs)):
                for j in range(i):
                    eng.solver.add(d.pairs[i][0].e != d.pairs[j][0].e)
        if exclude_known:
            eng.solver.add(z3.Length(m.e) > 0)
            for k, v in tags.pairs:
                if v is not None:
                    eng.solver.add(v.e != z3.StringVal("_none"))
        p = PyObj(_time=Time("T"), _measurement=m, _tags=tags, _fields=fields)
        row = call(SER, it, self=p, compact_key_prefixes=compact)
        q = PyObj()
        call(DES, it, self=q, row=row)
        # equality of Points: time, measurement, tags, fields
        conds = []
        ok_struct = (isinstance(q._time, Time) and q._time.tok == "T" and q._time.aware and not q._time.iso
                     and len(q._tags.pairs) == n_tags and len(q._fields.pairs) == n_fields)
        if not ok_struct:
            return False
        conds.append(zs(q._measurement) == m.e)
        for (k0, v0), (k1, v1) in zip(tags.pairs, q._tags.pairs):
            conds.append(zs(k1) == k0.e)
            if v0 is None or v1 is None:
                if not (v0 is None and v1 is None):
                    return False
            else:
                conds.append(zs(v1) == v0.e)
        for (k0, v0), (k1, v1) in zip(fields.pairs, q._fields.pairs):
            conds.append(zs(k1) == k0.e)
            if v1 is not None:
                return False
        return not eng.decide(z3.Not(z3.And(*conds)))
    return run


if __name__ == "__main__":
    t0 = time.time()
    for excl in (False, True):
        for nt in (0, 1, 2):
            for nf in (0, 1, 2):
                for compact in (False, True):
                    eng = Engine()
                    ok, model = eng.explore(obligation(nt, nf, compact, excl))
                    tag = "holds" if ok else "CEX " + str(model)
                    print(f"exclude_known={excl} tags={nt} fields={nf} compact={compact}: {tag} "
                          f"[paths={eng.paths} queries={eng.queries}]")
    print("total", round(time.time() - t0, 2), "s")
