import csv, io, itertools
alpha = ["a", ",", '"', "\r", "\n", "\x00", "é", " ", "\\", ";", "'"]
bad = []
for n in (1, 2, 3):
    for t in itertools.product(alpha, repeat=n):
        s = "".join(t)
        row = ["x", s, "y"]
        buf = io.StringIO(newline="")
        try:
            csv.writer(buf).writerow(row)
            buf.seek(0)
            back = list(csv.reader(buf))
        except Exception as e:
            back = repr(e)
        if back != [row]:
            bad.append((s, back))
print(len(bad)); print(bad[:8])
