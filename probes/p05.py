from typing import Optional
from datetime import datetime, timezone
from tinyflux.point import Point

T0 = datetime(2020, 1, 1, tzinfo=timezone.utc)

def h_roundtrip_tag(m: str, k: str, v: Optional[str], compact: bool) -> bool:
    """
    pre: m != "" and len(m) <= 3 and len(k) <= 3 and (v is None or (len(v) <= 5 and v != "_none"))
    post: _
    """
    p = Point(time=T0, measurement=m, tags={k: v})
    row = p._serialize_to_list(compact_key_prefixes=compact)
    q = Point()._deserialize_from_list(row)
    return q == p
