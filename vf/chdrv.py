"""E1a - CrossHair 0.0.110 driver (Python API).

A CrossHair harness is a typed function `h(args...) -> bool` with PEP-316 `pre:` lines
(the bounds) and `post: _`, living in a property's `*_ch.py` module.  It returns
True iff the property holds for its arguments; `cap()` records the realised arguments of
a failing path so that the counterexample can be replayed by calling the same function
concretely, outside CrossHair.

Verdict mapping: CONFIRMED -> holds (all paths exhausted); POST_FAIL / EXEC_ERR -> cex;
CANNOT_CONFIRM (timeout, unknown, realisation) -> inconclusive; PRE_UNSAT -> error.
"""
import collections
import importlib
import time

CAPTURE = []
LASTEXC = []


def cap(fn, *args):
    """Run fn(*args) -> bool; on failure capture the realised arguments."""
    try:
        ok = fn(*args)
        exc = None
    except Exception as e:  # engines steer with BaseException: not caught here
        ok = False
        exc = f"{type(e).__name__}: {e}"
    if not ok:
        try:
            from crosshair.core import deep_realize

            CAPTURE.append(deep_realize(args))
        except Exception:
            CAPTURE.append(args)
        LASTEXC.append(exc)
    return bool(ok)


_patched = [False]
STATS = collections.Counter()


def _patch():
    if _patched[0]:
        return
    _patched[0] = True
    import datetime as _dt

    import crosshair.core as _core
    import crosshair.statespace as ss

    # CrossHair's constructor patches build pure-Python datetimes that cannot be combined
    # with the C timezone.utc tinyflux uses; time is not symbolic in CrossHair harnesses.
    for e in (_dt.datetime, _dt.date, _dt.time, _dt.timedelta, _dt.timezone):
        _core._PATCH_REGISTRATIONS.pop(e, None)
    orig = ss.solver_is_sat

    def timed(solver, *exprs):
        t = time.perf_counter()
        r = orig(solver, *exprs)
        STATS["q"] += 1
        STATS["us"] += int((time.perf_counter() - t) * 1e6)
        return r

    ss.solver_is_sat = timed


def run(mod, ob, exclude):
    from crosshair.core_and_libs import analyze_function, run_checkables
    from crosshair.options import AnalysisKind, AnalysisOptionSet

    _patch()
    chmod = importlib.import_module(mod.__name__ + "_ch")
    fn = getattr(chmod, ob["harness"])
    chmod.EXCLUDE = set(exclude)
    chmod.PARAMS = dict(ob.get("params") or {})
    del CAPTURE[:]
    del LASTEXC[:]
    STATS.clear()
    stats = collections.Counter()
    opts = AnalysisOptionSet(
        analysis_kind=[AnalysisKind.PEP316],
        per_condition_timeout=float(ob.get("budget_s", 60)),
        per_path_timeout=float(ob.get("per_path_s", 30)),
        report_all=True,
        stats=stats,
        max_uninteresting_iterations=10**9,
    )
    t = time.time()
    msgs = run_checkables(analyze_function(fn, opts))
    states = [(m.state.name, m.message) for m in msgs]
    res = {
        "paths": int(stats.get("num_paths", 0)),
        "queries": int(STATS["q"]),
        "solver_s": round(STATS["us"] / 1e6, 3),
        "wall_s": round(time.time() - t, 3),
        "ch_messages": [f"{a}: {b}"[:300] for a, b in states],
    }
    names = [a for a, _ in states]
    if any(n in ("POST_FAIL", "EXEC_ERR", "POST_ERR", "PRE_INVALID") for n in names):
        args = CAPTURE[-1] if CAPTURE else None
        res.update(verdict="cex", msg="; ".join(f"{a}: {b}" for a, b in states)[:500], inputs={"args": _jsonable(args)})
        if args is not None:
            res["replay"] = replay_args(chmod, ob["harness"], args, exclude, ob.get("params"))
        else:
            res["replay"] = {"verdict": "unknown", "msg": "no captured arguments"}
    elif names and all(n == "CONFIRMED" for n in names):
        res.update(verdict="holds", msg=None)
    elif any(n == "PRE_UNSAT" for n in names):
        res.update(verdict="error", msg="precondition unsatisfiable / all paths aborted: " + str(states)[:300])
    else:
        res.update(verdict="inconclusive", msg=("; ".join(f"{a}: {b}" for a, b in states) or "no verdict")[:300])
    return res


def replay_args(chmod, hname, args, exclude=(), params=None):
    """Concrete replay: call the harness outside CrossHair."""
    chmod.EXCLUDE = set(exclude)
    chmod.PARAMS = dict(params or {})
    del CAPTURE[:]
    del LASTEXC[:]
    try:
        ok = getattr(chmod, hname)(*args)
    except Exception as e:
        return {"verdict": "cex", "msg": f"raised {type(e).__name__}: {e}"}
    if ok:
        return {"verdict": "holds", "msg": None}
    return {"verdict": "cex", "msg": f"{hname}{_short(args)} is False" + (f" ({LASTEXC[-1]})" if LASTEXC and LASTEXC[-1] else "")}


def _short(a):
    s = repr(a)
    return s if len(s) < 300 else s[:300] + "..."


def _jsonable(x):
    import json

    try:
        json.dumps(x)
        return x
    except Exception:
        if isinstance(x, (list, tuple)):
            return [_jsonable(i) for i in x]
        if isinstance(x, dict):
            return {repr(k) if not isinstance(k, str) else k: _jsonable(v) for k, v in x.items()}
        if isinstance(x, bytes):
            return {"__bytes__": x.hex()}
        return {"__repr__": repr(x)}


def _unjson(x):
    if isinstance(x, dict) and "__bytes__" in x:
        return bytes.fromhex(x["__bytes__"])
    if isinstance(x, dict) and "__repr__" in x:
        return eval(x["__repr__"], {"inf": float("inf"), "nan": float("nan")})  # our own output
    if isinstance(x, list):
        return [_unjson(i) for i in x]
    if isinstance(x, dict):
        return {k: _unjson(v) for k, v in x.items()}
    return x


def replay_body(mod, body):
    chmod = importlib.import_module(mod.__name__ + "_ch")
    args = _unjson((body.get("inputs") or {}).get("args"))
    return replay_args(chmod, body["harness"], args, body.get("excluded", []), body.get("params"))
