"""E1b - lean path engine ("lpe").

Native execution of real tinyflux code on proxy values.  Every truth test of a
symbolic condition is a *decision*; the decision tree is explored depth-first by
re-execution with a replayed prefix; z3 decides the feasibility of both sides of every
new decision.  Exhausting the tree == the harness's assertions hold for every value of
the symbolic inputs (within the harness's stated assumptions).

The engine is deliberately tiny and loud:
  * any implicit conversion that would silently concretise a proxy raises ProxyEscape
    (a BaseException) -> the obligation is reported *inconclusive*, never "holds";
  * `unknown` from z3 -> inconclusive;
  * a replayed prefix that meets a different condition -> nondeterminism error.

Public harness API (module level, bound to the engine of the current run):
    sym_int(name, lo=None, hi=None)  -> SymInt | int        unbounded unless lo/hi given
    sym_bool(name)                    -> bool (decided)     forks immediately
    choose(name, n)                   -> int in range(n)    forks n ways
    assume(cond)                      path constraint (infeasible -> path abandoned)
    require(cond, msg)                assertion, no fork: cex iff not(cond) satisfiable
    fail(msg)                         unconditional failure of this path
    note(key, value)                  attach an observation to a possible counterexample
"""
import time as _time

import z3


class EngineSignal(BaseException):
    """Base of everything the engine uses to steer; harnesses catch only Exception."""


class Infeasible(EngineSignal):
    pass


class Counterexample(EngineSignal):
    def __init__(self, msg):
        if callable(msg):
            msg = msg()
        super().__init__(msg)
        self.msg = msg


def show(x):
    """Render any value (proxies, stubs, Points) without touching escaping dunders."""
    try:
        from tinyflux.point import Point
    except Exception:  # pragma: no cover
        Point = ()
    if isinstance(x, Point):
        return f"Point(time={show(x._time)}, measurement={x._measurement!r}, tags={show(x._tags)}, fields={show(x._fields)})"
    if isinstance(x, dict):
        return "{" + ", ".join(f"{show(k)}: {show(v)}" for k, v in x.items()) + "}"
    if isinstance(x, (list, tuple, set, frozenset)):
        o, c = ("[", "]") if isinstance(x, list) else ("(", ")")
        return o + ", ".join(show(i) for i in x) + c
    try:
        return repr(x)
    except EngineSignal:
        return f"<{type(x).__name__}>"


class Inconclusive(EngineSignal):
    pass


class ProxyEscape(Inconclusive):
    pass


class NonDeterminism(EngineSignal):
    pass


class Budget(EngineSignal):
    pass


HASH_OK = [False]
CUR = None  # the engine (symbolic or concrete) of the running harness


# --------------------------------------------------------------------------- proxies


def _zi(x):
    if isinstance(x, SymInt):
        return x.e
    if type(x) is bool:
        return z3.IntVal(int(x))
    if type(x) is int:
        return z3.IntVal(x)
    return None


def _zr(x):
    """z3 Real term for a number (proxy or concrete), or None."""
    if isinstance(x, SymFloat):
        return x.e
    if isinstance(x, SymInt):
        return z3.ToReal(x.e)
    if type(x) is bool:
        return z3.RealVal(int(x))
    if type(x) is int:
        return z3.RealVal(x)
    if type(x) is float and x == x and x not in (float("inf"), float("-inf")):
        n, d = x.as_integer_ratio()
        return z3.RealVal(n) / z3.RealVal(d)
    return None


class SymBool:
    __slots__ = ("e",)

    def __init__(self, e):
        self.e = e

    def __bool__(self):
        return CUR.decide(self.e)

    @staticmethod
    def _e(o):
        if isinstance(o, SymBool):
            return o.e
        if type(o) is bool:
            return z3.BoolVal(o)
        return None

    def __and__(self, o):
        e = SymBool._e(o)
        if e is None:
            return NotImplemented
        return SymBool(z3.And(self.e, e))

    __rand__ = __and__

    def __or__(self, o):
        e = SymBool._e(o)
        if e is None:
            return NotImplemented
        return SymBool(z3.Or(self.e, e))

    __ror__ = __or__

    def __invert__(self):
        return SymBool(z3.Not(self.e))

    def __eq__(self, o):
        e = SymBool._e(o)
        if e is None:
            return False
        return SymBool(self.e == e)

    def __ne__(self, o):
        e = SymBool._e(o)
        if e is None:
            return True
        return SymBool(self.e != e)

    def __hash__(self):
        raise ProxyEscape("hash(SymBool)")

    def __repr__(self):
        return f"SymBool({self.e})"


def _escape(name):
    def f(self, *a, **k):
        raise ProxyEscape(f"{name} on {type(self).__name__}")

    return f


class SymInt:
    """A mathematical integer (Python int semantics) as a z3 Int term."""

    __slots__ = ("e",)

    def __init__(self, e):
        self.e = e

    @property
    def __class__(self):  # isinstance(x, int) True; isinstance(x, bool) False
        return int

    def _cmp(self, o, f, default, same, symmetric=False):
        if type(o) is SymInt:
            if o is self or o.e.eq(self.e):
                return same  # identical terms: decided without the solver
            if symmetric and self.e.sexpr() > o.e.sexpr():
                # a == b and b == a are one decision: C code (set/dict comparison) may present the operands in
                # either order depending on hash-table layout, which must not look like nondeterminism
                return SymBool(f(o.e, self.e))
            return SymBool(f(self.e, o.e))
        b = _zi(o)
        if b is None:
            if isinstance(o, SymReal):
                return NotImplemented
            r = _zr(o)  # a float or a SymFloat: compare as reals
            if r is not None:
                return SymBool(f(z3.ToReal(self.e), r))
            return default
        return SymBool(f(self.e, b))

    def __lt__(self, o):
        return self._cmp(o, lambda a, b: a < b, NotImplemented, False)

    def __le__(self, o):
        return self._cmp(o, lambda a, b: a <= b, NotImplemented, True)

    def __gt__(self, o):
        return self._cmp(o, lambda a, b: a > b, NotImplemented, False)

    def __ge__(self, o):
        return self._cmp(o, lambda a, b: a >= b, NotImplemented, True)

    def __eq__(self, o):
        return self._cmp(o, lambda a, b: a == b, False, True, symmetric=True)

    def __ne__(self, o):
        return self._cmp(o, lambda a, b: a != b, True, False, symmetric=True)

    def __bool__(self):
        return CUR.decide(self.e != 0)

    def _arith(self, o, f):
        b = _zi(o)
        if b is None:
            return NotImplemented
        return SymInt(f(self.e, b))

    def __add__(self, o):
        return self._arith(o, lambda a, b: a + b)

    __radd__ = __add__

    def __sub__(self, o):
        return self._arith(o, lambda a, b: a - b)

    def __rsub__(self, o):
        return self._arith(o, lambda a, b: b - a)

    def __mul__(self, o):
        return self._arith(o, lambda a, b: a * b)

    __rmul__ = __mul__

    def __neg__(self):
        return SymInt(-self.e)

    def __pos__(self):
        return self

    def __abs__(self):
        return SymInt(z3.If(self.e >= 0, self.e, -self.e))

    def __floordiv__(self, o):
        # Python floor division by a positive constant == z3 Int div (floor for b>0)
        if type(o) is int and o > 0:
            return SymInt(self.e / z3.IntVal(o))
        raise ProxyEscape("SymInt // non-constant")

    def __mod__(self, o):
        if type(o) is int and o > 0:
            return SymInt(self.e % z3.IntVal(o))
        raise ProxyEscape("SymInt % non-constant")

    def __deepcopy__(self, memo):
        return self

    def __copy__(self):
        return self

    def __repr__(self):
        return f"SymInt({self.e})"

    def __hash__(self):
        # A constant hash is the only sound hash for a symbolic value: every lookup then
        # falls through to __eq__, i.e. to a decision.  Enabled only by harnesses that
        # state why hashing is harmless for them (query hash tuples are never observed).
        if HASH_OK[0]:
            return 0
        raise ProxyEscape("hash(SymInt)")

    __index__ = _escape("__index__")
    __int__ = _escape("int()")
    __float__ = _escape("float()")
    __str__ = _escape("str()")
    __format__ = _escape("format()")
    __len__ = _escape("len()")
    __iter__ = _escape("iter()")
    __truediv__ = _escape("/")
    __rtruediv__ = _escape("/")

    def __round__(self, nd=None):
        if nd is None or (type(nd) is int and nd >= 0):
            return self  # round(int) and round(int, n >= 0) are the identity
        raise ProxyEscape("round(SymInt, negative digits)")

    def __trunc__(self):
        return self



class SymReal:
    """Placeholder so SymInt comparisons can defer to real-valued stubs (Stamp)."""

    __slots__ = ()


class SymFloat:
    """A float-typed field value: the rational k/4 for a symbolic integer k (z3 Real term).

    Quarters are exactly representable doubles for |k| < 2^53, so a model replays exactly;
    what this adds over SymInt is a value that is NOT an integer and whose `__class__` is
    float (isinstance(x, float) True, isinstance(x, int) False)."""

    __slots__ = ("e",)

    def __init__(self, e):
        self.e = e

    @property
    def __class__(self):
        return float

    def _cmp(self, o, f, default, same):
        if type(o) is SymFloat and (o is self or o.e.eq(self.e)):
            return same
        r = _zr(o)
        if r is None:
            return default
        return SymBool(f(self.e, r))

    def __lt__(self, o):
        return self._cmp(o, lambda a, b: a < b, NotImplemented, False)

    def __le__(self, o):
        return self._cmp(o, lambda a, b: a <= b, NotImplemented, True)

    def __gt__(self, o):
        return self._cmp(o, lambda a, b: a > b, NotImplemented, False)

    def __ge__(self, o):
        return self._cmp(o, lambda a, b: a >= b, NotImplemented, True)

    def __eq__(self, o):
        return self._cmp(o, lambda a, b: a == b, False, True)

    def __ne__(self, o):
        return self._cmp(o, lambda a, b: a != b, True, False)

    def __bool__(self):
        return CUR.decide(self.e != 0)

    def __neg__(self):
        return SymFloat(-self.e)

    def __pos__(self):
        return self

    def __hash__(self):
        if HASH_OK[0]:
            return 0
        raise ProxyEscape("hash(SymFloat)")

    def __deepcopy__(self, memo):
        return self

    def __copy__(self):
        return self

    def __repr__(self):
        return f"SymFloat({self.e})"

    # Arithmetic is over the reals (the rounding of double arithmetic is not modelled): exact for
    # sums/differences of dyadics of one scale inside the 53-bit range, an approximation otherwise.
    # Every counterexample is replayed on concrete doubles before it is reported, so the
    # approximation can only turn a would-be alarm into "inconclusive", never into a false one.
    def _ar(self, o, f):
        r = _zr(o)
        if r is None:
            raise ProxyEscape(f"SymFloat arithmetic with {type(o).__name__}")
        return SymFloat(z3.simplify(f(self.e, r)))

    def __add__(self, o):
        return self._ar(o, lambda a, b: a + b)

    __radd__ = __add__

    def __sub__(self, o):
        return self._ar(o, lambda a, b: a - b)

    def __rsub__(self, o):
        return self._ar(o, lambda a, b: b - a)

    def __abs__(self):
        return SymFloat(z3.If(self.e >= 0, self.e, -self.e))

    def __float__(self):
        # float(x) of a float is x; C callers that insist on a real double get an escape
        raise ProxyEscape("float(SymFloat)")

    def __round__(self, nd=None):
        """round(x, nd): the nearest multiple of 10**-nd (either neighbour on exact ties)."""
        if nd is None or type(nd) is not int or not 0 <= nd <= 12:
            raise ProxyEscape("round(SymFloat) without a small digit count")
        n = CUR.fresh_int("_round")
        scale = z3.RealVal(10 ** nd)
        d = self.e * scale - z3.ToReal(n.e)
        CUR.assume(SymBool(z3.And(2 * d <= 1, 2 * d >= -1)))
        return SymFloat(z3.ToReal(n.e) / scale)

    __index__ = _escape("__index__")
    __int__ = _escape("int()")
    __str__ = _escape("str()")
    __format__ = _escape("format()")
    __trunc__ = _escape("trunc()")
    __floordiv__ = _escape("//")
    __mod__ = _escape("%")
    __mul__ = __rmul__ = __truediv__ = __rtruediv__ = _escape("arithmetic")


# --------------------------------------------------------------------------- engine


def _z3_unescape(s):
    """z3 prints non-printable characters of a string value as \\u{hex}."""
    import re

    return re.sub(r"\\u\{([0-9a-fA-F]+)\}", lambda m: chr(int(m.group(1), 16)), s)


def _raised_in_harness(exc):
    """True if the innermost frame of the exception is harness code (under /verif), i.e. the
    exception was not raised by the code under test or by a library it called."""
    import os

    tb = exc.__traceback__
    last = None
    while tb is not None:
        last = tb
        tb = tb.tb_next
    if last is None:
        return False
    fn = os.path.realpath(last.tb_frame.f_code.co_filename)
    here = os.path.dirname(os.path.dirname(os.path.realpath(__file__)))
    return fn.startswith(here + os.sep) and isinstance(exc, (AttributeError, TypeError, NameError, KeyError, IndexError, ImportError))


class Engine:
    """Symbolic back end."""

    symbolic = True

    def __init__(self, budget_s=60.0, max_paths=10**9, solver_timeout_ms=20000, presets=None):
        self.presets = dict(presets or {})  # name -> value: splits one obligation into several
        self.solver = z3.Solver()
        self.solver.set("timeout", solver_timeout_ms)
        self.prefix = []  # [(cond, value)] decisions to replay
        self.trace = []  # [(cond, value, other_untried)]
        self.queries = 0
        self.solver_s = 0.0
        self.paths = 0
        self.paths_ok = 0
        self.paths_infeasible = 0
        self.max_depth = 0
        self.budget_s = budget_s
        self.max_paths = max_paths
        self.t0 = None
        self.inputs = {}
        self.notes = {}
        self.memo = {}
        self._nvars = 0

    # ---- solver helpers
    def _check(self, *extra):
        t = _time.perf_counter()
        r = self.solver.check(*extra)
        self.solver_s += _time.perf_counter() - t
        self.queries += 1
        if r == z3.unknown:
            raise Inconclusive(f"z3 unknown: {self.solver.reason_unknown()}")
        return r == z3.sat

    @property
    def replaying(self):
        return len(self.trace) < len(self.prefix)

    def decide(self, cond, both=False):
        rid = cond.get_id()
        hit = self.memo.get(rid)
        if hit is not None:  # same condition decided earlier on this path
            return hit[0]
        raw = cond
        cond = z3.simplify(cond)
        if z3.is_true(cond):
            self.memo[rid] = (True, raw)
            return True
        if z3.is_false(cond):
            self.memo[rid] = (False, raw)
            return False
        cid = cond.get_id()
        hit = self.memo.get(cid)
        if hit is not None:
            self.memo[rid] = (hit[0], raw)
            return hit[0]
        v = self._decide(cond, both)
        # keep the ASTs alive so that their ids stay unique for the rest of the path
        self.memo[cid] = (v, cond)
        self.memo[rid] = (v, raw)
        neg = z3.simplify(z3.Not(cond))
        self.memo[neg.get_id()] = (not v, neg)
        return v

    def _decide(self, cond, both):
        i = len(self.trace)
        if i < len(self.prefix):
            pc, v, other = self.prefix[i]
            if not pc.eq(cond):
                raise NonDeterminism(f"decision {i}: {pc} vs {cond}")
            self.trace.append((cond, v, other))
            return v
        if _time.perf_counter() - self.t0 > self.budget_s:
            raise Budget()
        if both:
            can_t = can_f = True
        else:
            can_t = self._check(cond)
            can_f = self._check(z3.Not(cond)) if can_t else True
        if can_t:
            self.solver.push()
            self.solver.add(cond)
            self.trace.append((cond, True, can_f))
            return True
        self.solver.push()
        self.solver.add(z3.Not(cond))
        self.trace.append((cond, False, False))
        return False

    # ---- harness API
    def sym_int(self, name, lo=None, hi=None):
        self._nvars += 1
        v = z3.Int(f"{name}")
        if name in self.inputs:
            raise RuntimeError(f"duplicate input {name}")
        self.inputs[name] = v
        if not self.replaying:
            if lo is not None:
                self.solver.add(v >= lo)
            if hi is not None:
                self.solver.add(v <= hi)
        return SymInt(v)

    def sym_quarter(self, name):
        """A float-typed value k/4, k an unbounded symbolic int (input `name` = k)."""
        k = self.sym_int(name)
        return SymFloat(z3.ToReal(k.e) / 4)

    def sym_dyadic(self, name, bits=40):
        """A float-typed value k / 2**bits, |k| < 2**53 (every such value is exactly a double)."""
        k = self.sym_int(name, -(2 ** 53) + 1, 2 ** 53 - 1)
        return SymFloat(z3.ToReal(k.e) / z3.RealVal(2 ** bits))

    def fresh_int(self, prefix):
        """An auxiliary integer that is not a harness input (deterministic name per path)."""
        self._naux = getattr(self, "_naux", 0) + 1
        return SymInt(z3.Int(f"{prefix}!{self._naux}"))

    def sym_bool(self, name):
        v = z3.Bool(name)
        if name in self.inputs:
            raise RuntimeError(f"duplicate input {name}")
        self.inputs[name] = v
        if name in self.presets:
            self.inputs[name] = z3.BoolVal(bool(self.presets[name]))
            return bool(self.presets[name])
        return self.decide(v, both=True)

    def choose(self, name, n):
        if name in self.presets:
            if not 0 <= self.presets[name] < n:
                raise Infeasible()
            self.inputs[name] = z3.IntVal(self.presets[name])
            return self.presets[name]
        if n <= 1:
            self.inputs[name] = z3.IntVal(0)
            return 0
        v = z3.Int(name)
        if name in self.inputs:
            raise RuntimeError(f"duplicate input {name}")
        self.inputs[name] = v
        if not self.replaying:
            self.solver.add(v >= 0, v < n)
        for i in range(n - 1):
            if self.decide(v == i, both=True):
                return i
        return n - 1

    def assume(self, cond):
        if isinstance(cond, SymBool):
            e = z3.simplify(cond.e)
            if z3.is_true(e):
                return
            if z3.is_false(e):
                raise Infeasible()
            if self.replaying:
                return
            if not self._check(e):
                raise Infeasible()
            self.solver.add(e)
            return
        if not cond:
            raise Infeasible()

    def require(self, cond, msg):
        if isinstance(cond, SymBool):
            e = z3.simplify(cond.e)
            if z3.is_true(e):
                return
            if self.replaying and not z3.is_false(e):
                return
            if z3.is_false(e) or self._check(z3.Not(e)):
                if not z3.is_false(e):
                    self.solver.add(z3.Not(e))
                raise Counterexample(msg)
            return
        if not cond:
            raise Counterexample(msg)

    def fail(self, msg):
        raise Counterexample(msg)

    def note(self, key, value):
        self.notes[key] = value

    # ---- exploration
    def _model_inputs(self):
        if not self._check():
            raise RuntimeError("path constraints unsat at counterexample")
        m = self.solver.model()
        out = {}
        for k, v in self.inputs.items():
            val = m.eval(v, model_completion=True)
            if z3.is_int_value(val):
                out[k] = val.as_long()
            elif z3.is_true(val):
                out[k] = True
            elif z3.is_false(val):
                out[k] = False
            elif z3.is_string_value(val):
                out[k] = _z3_unescape(val.as_string())
            else:
                out[k] = str(val)
        return out

    def explore(self, fn):
        """Run fn() over every feasible path.

        Returns dict(verdict=holds|cex|inconclusive|error, ...stats, inputs=..., msg=...).
        """
        global CUR
        CUR = self
        self.t0 = _time.perf_counter()
        self.prefix = []
        res = {"verdict": "holds", "msg": None, "inputs": None}
        try:
            while True:
                self.trace = []
                self.memo = {}
                self.inputs = {}
                self.notes = {}
                self._nvars = 0
                self._naux = 0
                self.paths += 1
                try:
                    fn()
                    self.paths_ok += 1
                except Infeasible:
                    self.paths_infeasible += 1
                except Exception as exc:  # harness let a real exception through
                    import traceback

                    if _raised_in_harness(exc):
                        # e.g. AttributeError on a private attribute the harness touches: the
                        # harness no longer fits the code under test - not a verdict about it
                        res.update(verdict="error", msg=f"harness exception {type(exc).__name__}: {exc}", notes={"traceback": traceback.format_exc()[-1500:]})
                        break
                    res.update(
                        verdict="cex",
                        msg=f"unexpected {type(exc).__name__}: {exc}",
                        inputs=self._model_inputs(),
                        notes={"traceback": traceback.format_exc()[-1500:]},
                    )
                    break
                except Counterexample as c:
                    res.update(
                        verdict="cex",
                        msg=c.msg,
                        inputs=self._model_inputs(),
                        notes={k: repr(v) for k, v in self.notes.items()},
                    )
                    break
                self.max_depth = max(self.max_depth, len(self.trace))
                # backtrack
                tr = self.trace
                while tr and not (tr[-1][1] is True and tr[-1][2]):
                    tr.pop()
                    self.solver.pop()
                if not tr:
                    break
                if self.paths >= self.max_paths:
                    raise Budget()
                cond = tr[-1][0]
                self.solver.pop()
                self.solver.push()
                self.solver.add(z3.Not(cond))
                self.prefix = tr[:-1] + [(cond, False, False)]
        except Budget:
            res.update(verdict="inconclusive", msg="budget exhausted")
        except Inconclusive as e:
            res.update(verdict="inconclusive", msg=f"{type(e).__name__}: {e}")
        except NonDeterminism as e:
            res.update(verdict="error", msg=f"nondeterminism: {e}")
        finally:
            CUR = None
        res.update(
            paths=self.paths,
            paths_ok=self.paths_ok,
            paths_infeasible=self.paths_infeasible,
            queries=self.queries,
            solver_s=round(self.solver_s, 3),
            wall_s=round(_time.perf_counter() - self.t0, 3),
            max_depth=self.max_depth,
        )
        return res


class ConcreteEngine:
    """Replay back end: the same harness, concrete values, no proxies, no stubs."""

    symbolic = False

    def __init__(self, inputs):
        self.values = dict(inputs)
        self.notes = {}

    def _get(self, name, default=0):
        return self.values.get(name, default)

    def sym_int(self, name, lo=None, hi=None):
        v = int(self._get(name, lo if lo is not None else 0))
        return v

    def sym_quarter(self, name):
        return int(self._get(name, 0)) / 4

    def sym_dyadic(self, name, bits=40):
        return int(self._get(name, 0)) / 2 ** bits

    def sym_bool(self, name):
        return bool(self._get(name, False))

    def choose(self, name, n):
        v = int(self._get(name, 0))
        if not 0 <= v < max(n, 1):
            raise Infeasible()
        return v

    def assume(self, cond):
        if not cond:
            raise Infeasible()

    def require(self, cond, msg):
        if not cond:
            raise Counterexample(msg)

    def fail(self, msg):
        raise Counterexample(msg)

    def note(self, key, value):
        self.notes[key] = value

    def run(self, fn):
        global CUR
        CUR = self
        try:
            fn()
            return {"verdict": "holds", "msg": None}
        except Infeasible:
            return {"verdict": "infeasible", "msg": "assumption false on replay"}
        except Counterexample as c:
            return {
                "verdict": "cex",
                "msg": c.msg,
                "notes": {k: repr(v) for k, v in self.notes.items()},
            }
        except Exception as exc:
            if _raised_in_harness(exc):
                return {"verdict": "error", "msg": f"harness exception {type(exc).__name__}: {exc}"}
            return {"verdict": "cex", "msg": f"unexpected {type(exc).__name__}: {exc}"}
        finally:
            CUR = None


# module-level API -----------------------------------------------------------------


def sym_int(name, lo=None, hi=None):
    return CUR.sym_int(name, lo, hi)


def sym_bool(name):
    return CUR.sym_bool(name)


def sym_dyadic(name, bits=40):
    return CUR.sym_dyadic(name, bits)


def sym_quarter(name):
    return CUR.sym_quarter(name)


def choose(name, n):
    return CUR.choose(name, n)


def assume(cond):
    return CUR.assume(cond)


def require(cond, msg):
    return CUR.require(cond, msg)


def fail(msg):
    return CUR.fail(msg)


def note(key, value):
    return CUR.note(key, value)


def is_symbolic():
    return CUR is not None and CUR.symbolic


PROXY_AUDIT = {
    "SymInt": {
        "implemented": "< <= > >= == != bool + - * neg abs //const %const deepcopy copy; __class__ spoofed to int",
        "raises ProxyEscape": "hash index int float str format len iter / round trunc",
    },
    "SymBool": {
        "implemented": "bool (=decision) & | ~ == !=",
        "raises ProxyEscape": "hash",
    },
}
