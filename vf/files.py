"""I/O layer for the file properties (C04, C12, C13, C15, C16).

No source hook: the names `open`, `os`, `shutil` and `NamedTemporaryFile` inside
`tinyflux.storages` are rebound at run time to recording proxies around the REAL objects
(real files in a private per-path directory).  Every proxied call is an I/O boundary: it
is logged, and a controller can raise Crash (a BaseException: simulated process death) or
OSError at boundary k - before the real call, or after it took effect.

"What is on disk" is read through an independent builtins.open of the path at that
instant: user-space buffers of the (abandoned) handles are lost, written bytes are kept.
"""
import builtins
import csv
import errno
import os as _os
import shutil as _shutil
import tempfile as _tempfile

from . import lpe


class Crash(lpe.EngineSignal):
    """Simulated process death at an I/O boundary."""


AFTER_OK = ("flush", "fsync", "close", "write", "truncate")


class IOController:
    def __init__(self):
        self.reset()

    def reset(self, mode=None, at=None, after=False, errno_=errno.ENOSPC):
        self.mode = mode  # None | "crash" | "oserror"
        self.at = at
        self.after = after
        self.errno = errno_
        self.k = 0
        self.log = []
        self.active = False
        self.fired = None
        self.handles = []
        self.snapshot = {}
        self.watch = list(getattr(self, "watch", []))
        self.read_boundaries = False

    def _fire(self, name, phase):
        self.fired = (self.k, name, phase)
        self.active = False
        # the on-disk state at this very instant: exception handlers and finally blocks that run
        # while the "dead" process unwinds must not be able to repair the file afterwards
        self.snapshot = {}
        for p in self.watch:
            try:
                self.snapshot[p] = read_bytes(p)
            except OSError:
                self.snapshot[p] = None
        if self.mode == "crash":
            raise Crash(f"crash {phase} boundary {self.k}: {name}")
        raise OSError(self.errno, f"injected {_os.strerror(self.errno)} {phase} {name} (boundary {self.k})")

    def call(self, name, fn, *a, **kw):
        """Run one I/O call as boundary number self.k."""
        if not self.active:
            return fn(*a, **kw)
        k = self.k
        self.log.append(name)
        hit = self.mode is not None and self.at == k
        if hit and not self.after:
            self._fire(name, "before")
        self.k += 1
        r = fn(*a, **kw)
        if hit and self.after:
            self.k -= 1
            self._fire(name, "after")
        return r


_END = object()
CTL = IOController()


class PFile:
    """Recording proxy around a real file object."""

    def __init__(self, f, label):
        object.__setattr__(self, "_f", f)
        object.__setattr__(self, "_label", label)
        CTL.handles.append(f)

    def __getattr__(self, n):
        return getattr(self._f, n)

    def write(self, s):
        return CTL.call(f"{self._label}.write", self._f.write, s)

    def writelines(self, l):
        return CTL.call(f"{self._label}.writelines", self._f.writelines, l)

    def flush(self):
        return CTL.call(f"{self._label}.flush", self._f.flush)

    def truncate(self, *a):
        return CTL.call(f"{self._label}.truncate", self._f.truncate, *a)

    def close(self):
        return CTL.call(f"{self._label}.close", self._f.close)

    def seek(self, *a):
        if CTL.active:
            CTL.log.append(f"{self._label}.seek{a}")
        return self._f.seek(*a)

    def read(self, *a):
        if CTL.active:
            CTL.log.append(f"{self._label}.read")
        return self._f.read(*a)

    def readline(self, *a):
        if CTL.active:
            CTL.log.append(f"{self._label}.readline")
        return self._f.readline(*a)

    def __iter__(self):
        if CTL.active:
            CTL.log.append(f"{self._label}.iter")
        if CTL.active and CTL.read_boundaries:
            return self._lines()
        return iter(self._f)

    def _lines(self):
        # one boundary per line read (only when read faults are asked for: C13); a fault here is
        # a read(2) that fails while the library scans its file
        it = iter(self._f)
        while True:
            if CTL.active and CTL.read_boundaries:
                line = CTL.call(f"{self._label}.readline", next, it, _END)
            else:
                line = next(it, _END)
            if line is _END:
                return
            yield line

    def __next__(self):
        return next(self._f)

    def __enter__(self):
        return self

    def __exit__(self, *a):
        self.close()
        return False


class _OSProxy:
    def __getattr__(self, n):
        return getattr(_os, n)

    def fsync(self, fd):
        return CTL.call("os.fsync", _os.fsync, fd)

    def replace(self, a, b):
        return CTL.call("os.replace", _os.replace, a, b)

    def rename(self, a, b):
        return CTL.call("os.rename", _os.rename, a, b)

    def remove(self, a):
        return CTL.call("os.remove", _os.remove, a)

    def unlink(self, a):
        return CTL.call("os.unlink", _os.unlink, a)

    def truncate(self, *a):
        return CTL.call("os.truncate", _os.truncate, *a)


class _ShutilProxy:
    def __getattr__(self, n):
        return getattr(_shutil, n)

    def _copy(self, src, dst, meta):
        """copy / copy2 / copyfile as the boundaries a process can die between:
        destination opened (and truncated) / half written / fully written."""
        data = builtins.open(src, "rb").read()
        out = CTL.call("copy.open-dst(truncates)", builtins.open, dst, "wb")
        try:
            half = len(data) // 2
            CTL.call("copy.write-first-half", lambda: (out.write(data[:half]), out.flush()))
            CTL.call("copy.write-second-half", lambda: (out.write(data[half:]), out.flush()))
        finally:
            out.close()
        if meta:
            _shutil.copymode(src, dst)
        return dst

    def copy(self, src, dst, **kw):
        return self._copy(src, dst, True)

    def copy2(self, src, dst, **kw):
        return self._copy(src, dst, True)

    def copyfile(self, src, dst, **kw):
        return self._copy(src, dst, False)

    def move(self, src, dst, **kw):
        return CTL.call("shutil.move", _shutil.move, src, dst)


def _open(path, mode="r", *a, **kw):
    f = CTL.call(f"open({_os.path.basename(str(path))!r},{mode!r})", builtins.open, path, mode, *a, **kw)
    lab = "primary" if not str(path).startswith(str(_tempfile.gettempdir())) else "tmpfile"
    return PFile(f, lab)


def _named_temp(*a, **kw):
    f = CTL.call("NamedTemporaryFile", _tempfile.NamedTemporaryFile, *a, **kw)
    return PFile(f, "temp")


_saved = {}


_NAMES = ("os", "shutil", "NamedTemporaryFile", "open", "tempfile")
_MISSING = object()


def install():
    """Rebind the I/O names of tinyflux.storages (whichever of them the module uses)."""
    import tinyflux.storages as st

    if _saved:
        return
    for n in _NAMES:
        _saved[n] = st.__dict__.get(n, _MISSING)
    st.os = _OSProxy()
    st.shutil = _ShutilProxy()
    st.NamedTemporaryFile = _named_temp
    st.open = _open
    if _saved["tempfile"] is not _MISSING:
        st.tempfile = _TempfileProxy()


def uninstall():
    import tinyflux.storages as st

    if not _saved:
        return
    for n, v in _saved.items():
        if v is _MISSING:
            if n in st.__dict__:
                delattr(st, n)
        else:
            setattr(st, n, v)
    _saved.clear()
    for f in CTL.handles:
        try:
            f.close()
        except Exception:
            pass
    CTL.handles = []


class _TempfileProxy:
    def __getattr__(self, n):
        return getattr(_tempfile, n)

    def NamedTemporaryFile(self, *a, **kw):
        return _named_temp(*a, **kw)

    def mkstemp(self, *a, **kw):
        return CTL.call("mkstemp", _tempfile.mkstemp, *a, **kw)


# ------------------------------------------------------------------ independent reader


def read_bytes(path):
    with builtins.open(path, "rb") as f:
        return f.read()


def decode_file(path, encoding=None, csv_kwargs=None, data=None):
    """Decode the database file (or the bytes `data` snapshotted from it) with an independent
    reader.  Returns (points, None) or (None, reason) when it cannot be decoded."""
    import io

    from tinyflux import Point

    try:
        if data is not None:
            f = io.TextIOWrapper(io.BytesIO(data), encoding=encoding, newline="")
            rows = list(csv.reader(f, **(csv_kwargs or {})))
        else:
            with builtins.open(path, "r", encoding=encoding, newline="") as f:
                rows = list(csv.reader(f, **(csv_kwargs or {})))
    except Exception as e:
        return None, f"unreadable: {type(e).__name__}: {e}"
    pts = []
    for i, row in enumerate(rows):
        try:
            pts.append(Point()._deserialize_from_list(row))
        except Exception as e:
            return None, f"row {i} {row!r} does not decode: {type(e).__name__}: {e}"
    return pts, None


def listing(*dirs):
    out = []
    for d in dirs:
        for root, _, files in _os.walk(d):
            for f in files:
                out.append(_os.path.relpath(_os.path.join(root, f), d))
    return sorted(out)
