"""Time stub: SymTime (a real datetime subclass) and Stamp (exact rational seconds).

Installed by rebinding the module-global name `datetime` inside tinyflux.* (no source
hook).  Models exactly the datetime API tinyflux uses; anything else raises StubEscape
(a BaseException -> the obligation is inconclusive, never silently wrong).

Representation
    aware : _off is an int/SymInt offset in microseconds (0 == UTC); _inst is the instant
            (microseconds since the epoch);  wall = _inst + _off
    naive : _off is None; _wall is the wall-clock value; the process's local UTC offset at
            that wall value is LOC(_wall): an uninterpreted function of the wall value
            (|LOC| <= 26 h) in symbolic runs, the real C library answer in concrete runs.
            _inst = _wall - LOC(_wall).

Assumed, not decided (see DESIGN 2.1): each naive wall value denotes one instant (PEP 495,
folds ignored); datetime.fromtimestamp(x).astimezone(utc) is the identity on instants;
float seconds are exact inside 1697..2242 (lemma L-float-us).
"""
import datetime as _dt

import z3

from . import lpe

_real = _dt.datetime
UTC = _dt.timezone.utc
EPOCH = _real(1970, 1, 1, tzinfo=UTC)
M = 1000000
H26 = 26 * 3600 * M
# supported range of the property (years 1700-2240), microseconds since the epoch
LO_US = int((_real(1700, 1, 1, tzinfo=UTC) - EPOCH) / _dt.timedelta(microseconds=1))
HI_US = int((_real(2240, 12, 31, tzinfo=UTC) - EPOCH) / _dt.timedelta(microseconds=1))


class StubEscape(lpe.Inconclusive):
    pass


_LOC = z3.Function("LOC", z3.IntSort(), z3.IntSort())


def _is_sym(x):
    return isinstance(x, lpe.SymInt)


def _local_offset_of_wall(wall):
    """UTC offset (us) of the local zone for the naive wall-clock value `wall`."""
    if _is_sym(wall):
        off = lpe.SymInt(_LOC(wall.e))
        lpe.assume((off >= -H26) & (off <= H26))
        return off
    naive = _real(1970, 1, 1) + _dt.timedelta(microseconds=wall)
    aware = naive.astimezone()
    return int(aware.utcoffset() / _dt.timedelta(microseconds=1))


def _local_offset_of_instant(inst):
    if _is_sym(inst):
        # the wall value is inst + off where off == LOC(wall): pick a fresh offset and
        # tie it to LOC so that the round trip through a naive value is the identity
        g = lpe.SymInt(z3.FreshInt("locoff"))
        lpe.assume((g >= -H26) & (g <= H26))
        lpe.assume(lpe.SymBool(_LOC((inst + g).e) == g.e))
        return g
    aware = (EPOCH + _dt.timedelta(microseconds=inst)).astimezone()
    return int(aware.utcoffset() / _dt.timedelta(microseconds=1))


class Stamp(lpe.SymReal):
    """The real number us/10**6 - what datetime.timestamp() returns - kept exact."""

    __slots__ = ("us",)

    def __init__(self, us):
        self.us = us

    @staticmethod
    def _us(o):
        if isinstance(o, Stamp):
            return o.us
        if type(o) is int or isinstance(o, lpe.SymInt):
            return o * M
        if type(o) is float and o == int(o) and abs(o) < 2**52:
            return int(o) * M
        raise StubEscape(f"Stamp combined with {type(o).__name__}")

    def __lt__(self, o):
        return self.us < Stamp._us(o)

    def __le__(self, o):
        return self.us <= Stamp._us(o)

    def __gt__(self, o):
        return self.us > Stamp._us(o)

    def __ge__(self, o):
        return self.us >= Stamp._us(o)

    def __eq__(self, o):
        if not isinstance(o, (Stamp, int, float, lpe.SymInt)):
            return False
        return self.us == Stamp._us(o)

    def __ne__(self, o):
        if not isinstance(o, (Stamp, int, float, lpe.SymInt)):
            return True
        return self.us != Stamp._us(o)

    def __hash__(self):
        if HASH_OK[0]:
            return 0
        raise StubEscape("hash(Stamp)")

    def __add__(self, o):
        return Stamp(self.us + Stamp._us(o))

    __radd__ = __add__

    def __sub__(self, o):
        return Stamp(self.us - Stamp._us(o))

    def __rsub__(self, o):
        return Stamp(Stamp._us(o) - self.us)

    def __neg__(self):
        return Stamp(-self.us)

    def __int__(self):  # truncation toward zero, as int(float)
        us = self.us
        if _is_sym(us):
            q = us // M
            r = us % M
            neg_adj = lpe.SymInt(z3.If(z3.And(us.e < 0, r.e != 0), q.e + 1, q.e))
            return neg_adj
        return int(us / M) if abs(us) < 2**52 else (us // M if us >= 0 else -((-us) // M))

    def __floor__(self):
        return self.us // M

    def __ceil__(self):
        return -((-self.us) // M)

    def __trunc__(self):
        return self.__int__()

    def __round__(self, nd=None):
        if nd is not None and nd >= 6:
            return self
        raise StubEscape("round(Stamp) below microsecond resolution")

    def __float__(self):
        if _is_sym(self.us):
            raise StubEscape("float(Stamp)")
        return self.us / M

    def __deepcopy__(self, memo):
        return self

    def __repr__(self):
        return f"Stamp({self.us!r})"


HASH_OK = lpe.HASH_OK


class SymTime(_real):
    def __new__(cls, inst=None, off=0, wall=None):
        self = _real.__new__(cls, 2000, 1, 1)
        if off is None:
            self._off = None
            self._wall = wall
            self._inst_cache = inst
        else:
            self._off = off
            self._inst_cache = inst
            self._wall = None
        return self

    # --- construction helpers
    @classmethod
    def utc(cls, us):
        return cls(us, 0)

    @classmethod
    def aware(cls, us, off):
        return cls(us, off)

    @classmethod
    def naive(cls, wall):
        return cls(None, None, wall)

    @property
    def _inst(self):
        if self._inst_cache is None:
            self._inst_cache = self._wall - _local_offset_of_wall(self._wall)
        elif type(self._inst_cache) is _Tick:
            self._inst_cache = CLOCK.value(self._inst_cache.k)
        return self._inst_cache

    @property
    def _us(self):
        return self._inst

    def _wallclock(self):
        if self._off is None:
            if type(self._wall) is _LazyWall:
                self._wall = self._wall.inst + _local_offset_of_instant(self._wall.inst)
            return self._wall
        return self._inst + self._off

    def _concrete(self):
        return not (_is_sym(self._off) or _is_sym(self._inst) or (self._off is None and _is_sym(self._wallclock())))

    def to_real(self):
        if not self._concrete():
            raise StubEscape("to_real on symbolic time")
        if self._off is None:
            return _real(1970, 1, 1) + _dt.timedelta(microseconds=self._wallclock())
        t = EPOCH + _dt.timedelta(microseconds=self._inst)
        if self._off == 0:
            return t
        return t.astimezone(_dt.timezone(_dt.timedelta(microseconds=self._off)))

    @classmethod
    def from_real(cls, t):
        if t.tzinfo is None:
            w = (t - _real(1970, 1, 1)) // _dt.timedelta(microseconds=1)
            return cls.naive(w)
        inst = (t - EPOCH) // _dt.timedelta(microseconds=1)
        off = t.utcoffset() // _dt.timedelta(microseconds=1)
        return cls(inst, off)

    # --- modelled datetime API
    def astimezone(self, tz=None):
        if tz is not UTC:
            raise StubEscape(f"astimezone({tz!r})")
        return SymTime(self._inst, 0)

    def replace(self, *a, **kw):
        if a or set(kw) != {"tzinfo"}:
            raise StubEscape(f"replace({a}, {kw})")
        tz = kw["tzinfo"]
        if tz is None:
            if self._off is None:
                return self
            return SymTime.naive(self._wallclock())
        if tz is UTC:
            return SymTime(self._wallclock(), 0)
        raise StubEscape(f"replace(tzinfo={tz!r})")

    def timestamp(self):
        return Stamp(self._inst)

    @property
    def tzinfo(self):
        if self._off is None:
            return None
        if _is_sym(self._off):
            if lpe.CUR.decide((self._off == 0).e):
                return UTC
            return _SYMTZ
        if self._off == 0:
            return UTC
        return _dt.timezone(_dt.timedelta(microseconds=self._off))

    def utcoffset(self):
        if self._off is None:
            return None
        if _is_sym(self._off):
            raise StubEscape("utcoffset() of symbolic offset")
        return _dt.timedelta(microseconds=self._off)

    @classmethod
    def fromtimestamp(cls, ts, tz=None):
        inst = Stamp._us(ts) if not isinstance(ts, Stamp) else ts.us
        if tz is UTC:
            return SymTime(inst, 0)
        if tz is not None:
            raise StubEscape(f"fromtimestamp(tz={tz!r})")
        # naive local time: the wall value is only materialised if something asks for it
        return SymTime(inst, None, _LazyWall(inst))

    @classmethod
    def now(cls, tz=None):
        if tz is not UTC:
            raise StubEscape("now() without timezone.utc")
        return SymTime(_Tick(CLOCK.tick()), 0)

    def isoformat(self, *a, **k):
        return self.to_real().isoformat(*a, **k)

    @classmethod
    def fromisoformat(cls, s):
        return cls.from_real(_real.fromisoformat(s))

    # --- comparisons
    def _pair(self, o):
        """(a, b) comparable ints, or None when one is aware and the other naive."""
        if (self._off is None) != (o._off is None):
            return None
        if self._off is None:
            return self._wallclock(), o._wallclock()
        return self._inst, o._inst

    def _ord(self, o, f):
        if not isinstance(o, SymTime):
            if isinstance(o, _real):
                o = SymTime.from_real(o)
            else:
                return NotImplemented
        p = self._pair(o)
        if p is None:
            raise TypeError("can't compare offset-naive and offset-aware datetimes")
        return f(p[0], p[1])

    def __lt__(self, o):
        return self._ord(o, lambda a, b: a < b)

    def __le__(self, o):
        return self._ord(o, lambda a, b: a <= b)

    def __gt__(self, o):
        return self._ord(o, lambda a, b: a > b)

    def __ge__(self, o):
        return self._ord(o, lambda a, b: a >= b)

    def __eq__(self, o):
        if not isinstance(o, SymTime):
            if isinstance(o, _real):
                o = SymTime.from_real(o)
            else:
                return False
        p = self._pair(o)
        if p is None:
            return False
        return p[0] == p[1]

    def __ne__(self, o):
        if not isinstance(o, SymTime):
            if isinstance(o, _real):
                o = SymTime.from_real(o)
            else:
                return True
        p = self._pair(o)
        if p is None:
            return True
        return p[0] != p[1]

    def __hash__(self):
        if HASH_OK[0]:
            return 0
        raise StubEscape("hash(SymTime)")

    def __bool__(self):
        return True

    def __deepcopy__(self, memo):
        return self

    def __copy__(self):
        return self

    def __reduce_ex__(self, protocol):
        raise StubEscape("pickle(SymTime)")

    def __repr__(self):
        if self._off is None:
            return f"SymTime.naive({self._wall!r})" if type(self._wall) is not _LazyWall else f"SymTime.local_of_instant({self._inst_cache!r})"
        return f"SymTime({self._inst_cache!r}, off={self._off!r})"

    __str__ = __repr__

    def __add__(self, o):
        if isinstance(o, _dt.timedelta):
            d = o // _dt.timedelta(microseconds=1)
            if self._off is None:
                return SymTime.naive(self._wallclock() + d)
            return SymTime(self._inst + d, self._off)
        return NotImplemented

    __radd__ = __add__

    def __sub__(self, o):
        if isinstance(o, _dt.timedelta):
            return self.__add__(-o)
        raise StubEscape("SymTime - datetime")

    def _escape(name):
        def f(self, *a, **k):
            raise StubEscape(f"SymTime.{name}")

        return f

    for _n in (
        "date time timetz utctimetuple timetuple toordinal weekday isoweekday isocalendar "
        "ctime strftime __format__ dst tzname"
    ).split():
        locals()[_n] = _escape(_n)
    for _n in "year month day hour minute second microsecond fold".split():
        locals()[_n] = property(_escape(_n))
    del _n, _escape


class _SymTZ(_dt.tzinfo):
    def utcoffset(self, dt):
        raise StubEscape("symbolic tzinfo.utcoffset")

    def __repr__(self):
        return "<symbolic non-UTC tzinfo>"


_SYMTZ = _SymTZ()


class _LazyWall:
    __slots__ = ("inst",)

    def __init__(self, inst):
        self.inst = inst


class _Tick:
    __slots__ = ("k",)

    def __init__(self, k):
        self.k = k


class Clock:
    """datetime.now(utc): a symbolic non-decreasing clock.

    Every call of now() takes the next tick; the tick's value is materialised as a fresh
    symbolic int (input `clock<k>`) only when something looks at it, constrained to be
    ordered consistently with every other materialised tick.  `fixed` gives concrete
    values (replays / CSV runs).
    """

    def __init__(self):
        self.reset()

    def reset(self, fixed=None):
        self.n = 0
        self.fixed = fixed
        self.vals = {}

    def tick(self):
        self.n += 1
        return self.n - 1

    def value(self, k):
        if k in self.vals:
            return self.vals[k]
        if self.fixed is not None:
            v = self.fixed(k) if callable(self.fixed) else self.fixed[min(k, len(self.fixed) - 1)]
        else:
            v = lpe.sym_int(f"clock{k}", LO_US, HI_US)
            for j, w in self.vals.items():
                lpe.assume(w <= v if j < k else v <= w)
        self.vals[k] = v
        return v


CLOCK = Clock()

_MODS = ("database", "index", "point", "storages", "queries", "measurement")
_saved = {}


def install():
    import importlib

    for n in _MODS:
        m = importlib.import_module("tinyflux." + n)
        if hasattr(m, "datetime") and m.datetime is not SymTime:
            _saved[n] = m.datetime
            m.datetime = SymTime


def uninstall():
    import importlib

    for n, v in _saved.items():
        importlib.import_module("tinyflux." + n).datetime = v
    _saved.clear()


# ---------------------------------------------------------------- harness-side helpers


def mk_time(us, off=0):
    """A datetime for the harness: SymTime when stubs are installed, real otherwise."""
    if _saved:
        if off is None:
            return SymTime.naive(us)
        return SymTime(us, off)
    if off is None:
        return _real(1970, 1, 1) + _dt.timedelta(microseconds=us)
    t = EPOCH + _dt.timedelta(microseconds=us)
    if off == 0:
        return t
    return t.astimezone(_dt.timezone(_dt.timedelta(microseconds=off)))


def us_of(t):
    """Instant (us since epoch) of an aware datetime returned by tinyflux."""
    if isinstance(t, SymTime):
        return t._inst
    if t.tzinfo is None:
        raise ValueError("naive datetime returned")
    return (t - EPOCH) // _dt.timedelta(microseconds=1)


def off_of(t):
    """UTC offset in us of a returned datetime; None if naive."""
    if isinstance(t, SymTime):
        return t._off
    if t.tzinfo is None:
        return None
    return t.utcoffset() // _dt.timedelta(microseconds=1)


# ---------------------------------------------------------------- stub validation


def validate(n_cases=60, seed=1):
    """Differential test SymTime (concrete mode) vs real datetime under 4 process zones.

    Returns the number of comparisons made; raises AssertionError on any difference.
    """
    import os
    import random
    import time as _t

    rnd = random.Random(seed)
    checked = 0
    old_tz = os.environ.get("TZ")
    try:
        for zone in ("UTC", "America/Los_Angeles", "Australia/Lord_Howe", "Asia/Kathmandu"):
            os.environ["TZ"] = zone
            _t.tzset()
            for _ in range(n_cases):
                us = rnd.randrange(LO_US // 4, HI_US // 2)
                offm = rnd.choice([0, 0, 330, -480, 630, 1, -719, 840])
                kind = rnd.choice(["utc", "aware", "naive"])
                if kind == "utc":
                    r = EPOCH + _dt.timedelta(microseconds=us)
                elif kind == "aware":
                    r = (EPOCH + _dt.timedelta(microseconds=us)).astimezone(
                        _dt.timezone(_dt.timedelta(minutes=offm))
                    )
                else:
                    if not (0 < us < HI_US // 4):
                        us = abs(us) % (HI_US // 4) + 86400 * M
                    r = _real(1970, 1, 1) + _dt.timedelta(microseconds=us)
                s = SymTime.from_real(r)

                def same(a, b, what):
                    nonlocal checked
                    checked += 1
                    ra = a.to_real() if isinstance(a, SymTime) else a
                    assert ra == b and (ra.tzinfo is None) == (b.tzinfo is None) and (
                        ra.tzinfo is None or ra.utcoffset() == b.utcoffset()
                    ), (zone, what, r, ra, b)

                same(s, r, "from_real/to_real")
                same(s.astimezone(UTC), r.astimezone(UTC), "astimezone")
                same(s.replace(tzinfo=None), r.replace(tzinfo=None), "replace None")
                same(s.replace(tzinfo=UTC), r.replace(tzinfo=UTC), "replace utc")
                st, rt = s.timestamp(), r.timestamp()
                checked += 1
                # Stamp is exact; the float is its nearest double (lemma L-float-us)
                assert abs(float(st) - rt) < 1e-6, (zone, "timestamp", r, st, rt)
                same(
                    SymTime.fromtimestamp(st).astimezone(UTC),
                    _real.fromtimestamp(rt).astimezone(UTC),
                    "fromtimestamp",
                )
                if kind != "naive":
                    assert s.isoformat() == r.isoformat()
                    same(SymTime.fromisoformat(r.isoformat()), r, "iso")
                    checked += 1
                # comparisons against a second value
                us2 = us + rnd.choice([-1, 0, 1, 10**6])
                r2 = EPOCH + _dt.timedelta(microseconds=us2)
                s2 = SymTime.from_real(r2)
                for opn in ("__lt__", "__le__", "__gt__", "__ge__", "__eq__", "__ne__"):
                    try:
                        a = getattr(_real, opn)(r, r2)
                    except TypeError:
                        a = "TypeError"
                    try:
                        b = getattr(s, opn)(s2)
                    except TypeError:
                        b = "TypeError"
                    checked += 1
                    assert a == b, (zone, opn, r, r2, a, b)
    finally:
        if old_tz is None:
            os.environ.pop("TZ", None)
        else:
            os.environ["TZ"] = old_tz
        _t.tzset()
    return checked
