"""History interpreter shared by the state-based properties (C01-C03, C06-C08, C10, C11).

A *skeleton* is a concrete list of operation descriptors (the "program"); all data in it
(times, field values, tag selectors, comparison values) are symbolic and created on
demand.  Every operation is applied to the real TinyFlux object and to the ModelDB; the
selected checks compare the two after each step.

Symbolic domains (cfg["storage"] == "mem"):
    time            int microseconds in the supported range 1700..2240 (any order, ties)
    field value     unbounded int, or None / absent by selector
    tag value       selector over a finite alphabet (strings that become dict keys are
                    never symbolic: hashing would realise them)
    measurement     selector over ("m", "n")
cfg["storage"] == "csv": the same harness on real files; times and field values come from
small selector ranges because isoformat()/str(float()) need concrete values.
"""
import datetime as _dt
import os
import shutil
import tempfile

from . import lpe, symtime
from .lpe import assume, choose, fail, require, show, sym_bool, sym_int
from .model import (
    MP,
    ModelDB,
    b_and,
    compile_q,
    make_change,
    mp_eq,
    q_repr,
    truth,
    veq,
)
from .symtime import HI_US, LO_US, mk_time, off_of, us_of

SYM = "<sym>"  # placeholder for "fresh symbolic value" in descriptors
TAG_ALPHA = (None, "", "a", "b")  # tag values; index 0..3; "absent" handled separately
CSV_T0 = 1_600_000_000_000_000  # base instant for CSV runs
_scratch_n = [0]


class H:
    """Per-path harness context."""

    def __init__(self, cfg):
        self.cfg = cfg
        self.storage = cfg.get("storage", "mem")
        self.ai = cfg.get("auto_index", True)
        self.n = {}
        self.db = None
        self.model = ModelDB()
        self.dir = None
        self.symbolic_time = False

    # ---- naming
    def name(self, base):
        i = self.n.get(base, 0)
        self.n[base] = i + 1
        return f"{base}{i}"

    # ---- symbolic values
    def time_us(self, base="t"):
        nm = self.name(base)
        if self.storage == "mem":
            return sym_int(nm, LO_US, HI_US)
        return CSV_T0 + choose(nm, self.cfg.get("csv_times", 4)) * 500_000

    def fval(self, base="f"):
        nm = self.name(base)
        if self.storage == "mem":
            if self.cfg.get("floats"):
                # int- or float-typed by selector; the float is a quarter (k/4), e.g. 2.5, -0.25
                if choose(self.name(base + "kind"), 2):
                    return lpe.sym_quarter(nm)
            return sym_int(nm)
        if self.cfg.get("floats"):
            return (choose(nm, 5) - 2) / 2  # -1.0, -0.5, 0.0, 0.5, 1.0
        return choose(nm, 3) - 1

    def tagval(self, base="g", alpha=TAG_ALPHA):
        return alpha[choose(self.name(base), len(alpha))]

    def meas(self, base="m", alpha=None):
        alpha = alpha or tuple(self.cfg.get("meas_alpha") or ("m", "n"))
        return alpha[choose(self.name(base), len(alpha))]

    # ---- database
    def open(self):
        from tinyflux import TinyFlux
        from tinyflux.storages import MemoryStorage

        symtime.CLOCK.reset()
        if self.storage == "mem":
            if lpe.is_symbolic() and self.cfg.get("stub", True):
                symtime.install()
                symtime.HASH_OK[0] = True
            self.db = TinyFlux(storage=MemoryStorage, auto_index=self.ai)
        else:
            _scratch_n[0] += 1
            base = "/dev/shm" if os.path.isdir("/dev/shm") else tempfile.gettempdir()
            self.dir = os.path.join(base, f"vf_{os.getpid()}_{_scratch_n[0]}")
            os.makedirs(self.dir, exist_ok=True)
            os.makedirs(os.path.join(self.dir, "tmp"), exist_ok=True)
            self._old_tmp = tempfile.tempdir
            tempfile.tempdir = os.path.join(self.dir, "tmp")
            self.path = os.path.join(self.dir, "db.csv")
            if self.cfg.get("io_proxy"):
                from . import files

                files.CTL.reset()
                files.install()
            self.db = TinyFlux(self.path, auto_index=self.ai, **self.cfg.get("csv_kwargs", {}))
        return self.db

    def reopen(self):
        from tinyflux import TinyFlux

        if self.storage != "csv":
            return
        self.db.close()
        self.db = TinyFlux(self.path, auto_index=self.ai, **self.cfg.get("csv_kwargs", {}))

    def close(self):
        symtime.HASH_OK[0] = False
        symtime.uninstall()
        if self.cfg.get("io_proxy"):
            from . import files

            files.CTL.active = False
            files.uninstall()
        if self.dir:
            try:
                self.db.close()
            except Exception:
                pass
            tempfile.tempdir = self._old_tmp
            shutil.rmtree(self.dir, ignore_errors=True)
            self.dir = None

    # ---- points
    def mk_point(self, spec, base=""):
        """spec: dict(time=SYM|None|us, meas=SYM|str, tags={k: SYM|'absent?'|value},
        fields={k: SYM|'opt'|value}).  Returns (Point, MP-without-clock-time)."""
        from tinyflux import Point

        kw = {}
        t = spec.get("time", SYM)
        if t == SYM:
            t = self.time_us()
        if t is not None:
            kw["time"] = mk_time(t)
        m = spec.get("meas", "m")
        if m == SYM:
            m = self.meas()
        if m is not None:
            kw["measurement"] = m
        tags = {}
        for k, v in spec.get("tags", {}).items():
            if v == SYM:  # absent or a value of the alphabet
                i = choose(self.name("g"), len(TAG_ALPHA) + 1)
                if i == 0:
                    continue
                v = TAG_ALPHA[i - 1]
            elif isinstance(v, tuple):  # explicit alphabet, first entry may be "absent"
                v = v[choose(self.name("g"), len(v))]
                if v == "absent":
                    continue
            tags[k] = v
        fields = {}
        for k, v in spec.get("fields", {}).items():
            if v == SYM:
                v = self.fval()
            elif v == "opt":  # absent | None | symbolic number
                i = choose(self.name("fo"), 3)
                if i == 0:
                    continue
                v = None if i == 1 else self.fval()
            fields[k] = v
        if tags or "tags" in spec:
            kw["tags"] = dict(tags)
        if fields or "fields" in spec:
            kw["fields"] = dict(fields)
        if not kw:
            kw["measurement"] = "_default"
        p = Point(**kw)
        mp = MP(t, m if m is not None else "_default", tags, fields)
        return p, mp

    # ---- comparing implementation results with the model
    def req_point(self, p, mp, what):
        from tinyflux import Point

        require(isinstance(p, Point), lambda: f"{what}: not a Point: {show(p)}")
        require(p.time is not None, lambda: f"{what}: time is None")
        o = off_of(p.time)
        require(veq(o, 0) if o is not None else False, lambda: f"{what}: time not UTC-aware (offset {show(o)})")
        require(us_of(p.time) == mp.t, lambda: f"{what}: time differs: {show(p.time)} vs {show(mp.t)}")
        require(p.measurement == mp.m, lambda: f"{what}: measurement {show(p.measurement)} vs {show(mp.m)}")
        require(
            set(p.tags) == set(mp.tags), lambda: f"{what}: tag keys {sorted(p.tags)} vs {sorted(mp.tags)}"
        )
        for k in mp.tags:
            require(veq(p.tags[k], mp.tags[k]), lambda: f"{what}: tag {k}: {show(p.tags[k])} vs {show(mp.tags[k])}")
        require(
            set(p.fields) == set(mp.fields),
            lambda: f"{what}: field keys {sorted(p.fields)} vs {sorted(mp.fields)}",
        )
        for k in mp.fields:
            require(
                veq(p.fields[k], mp.fields[k]),
                lambda: f"{what}: field {k}: {show(p.fields[k])} vs {show(mp.fields[k])}",
            )

    def req_points(self, got, exp, what):
        require(len(got) == len(exp), lambda: f"{what}: {len(got)} points, expected {len(exp)}")
        for i, (p, mp) in enumerate(zip(got, exp)):
            self.req_point(p, mp, f"{what}[{i}]")

    def check_contents(self, what="contents"):
        """Storage contents (insertion order) == model; read without read_op side effects."""
        got = list(iter(self.db))
        self.req_points(got, self.model.pts, what)

    # ---- queries
    def q(self, qd):
        """Instantiate SYM placeholders of a query descriptor with fresh symbolic values."""
        k = qd[0]
        if k == "not":
            return ("not", self.q(qd[1]))
        if k in ("and", "or"):
            return (k, self.q(qd[1]), self.q(qd[2]))
        out = []
        for i, x in enumerate(qd):
            if x == SYM:
                if k.startswith("time"):
                    x = self.time_us("x")
                elif k.startswith("field"):
                    x = self.fval("y")
                elif k.startswith("tag"):
                    x = self.tagval("h")
                elif k.startswith("meas"):
                    x = self.meas("mm", ("m", "n", "zz"))
            elif x == "<op>":
                from .model import OPNAMES

                x = OPNAMES[choose(self.name("op"), 6)]
            out.append(x)
        return tuple(out)

    def compile(self, qd):
        return compile_q(qd, mk_time)

    # ---- read observations (C01)
    def check_reads(self, qd, mfilter=None, what="", select_keys=("time", "measurement", "tags.k", "fields.f"), via=None, qobj=None):
        db, model = self.db, self.model
        if qobj is not None:  # a pre-built query object whose documented meaning is qd
            _compile = self.compile
            self.compile = lambda _qd: qobj()
        tag = f"{what} q={q_repr(qd)} measurement={show(mfilter)}"
        kw = {} if mfilter is None else {"measurement": mfilter}
        if via is not None:  # through a Measurement handle
            db = _target(self, via)
            mfilter = via
            kw = {}
            tag = f"{what} q={q_repr(qd)} via measurement({via!r})"
        try:
            got = db.search(self.compile(qd), sorted=False, **kw)
        except Exception as e:
            fail(lambda: f"search raised {type(e).__name__}: {e} [{tag}]")
        exp = model.matches(qd, mfilter)
        self.req_points(got, exp, f"search(sorted=False) [{tag}]")
        try:
            n = db.count(self.compile(qd), **kw)
            c = db.contains(self.compile(qd), **kw)
            g = db.get(self.compile(qd), **kw)
            s = db.search(self.compile(qd), **kw)
            sel = db.select(select_keys, self.compile(qd), **kw)
            sel1 = db.select("time", self.compile(qd), **kw)
        except Exception as e:
            fail(lambda: f"read raised {type(e).__name__}: {e} [{tag}]")
        require(n == len(exp), lambda: f"count={n}, expected {len(exp)} [{tag}]")
        require(isinstance(c, bool) and c == (len(exp) > 0), lambda: f"contains={show(c)}, expected {len(exp) > 0} [{tag}]")
        if exp:
            require(g is not None, lambda: f"get returned None, expected a point [{tag}]")
            self.req_point(g, exp[0], f"get [{tag}]")
        else:
            require(g is None, lambda: f"get returned {show(g)}, expected None [{tag}]")
        self.req_points(s, sorted(exp, key=lambda p: p.t), f"search(sorted=True) [{tag}]")
        # select == projection of the unsorted search
        require(len(sel) == len(exp), lambda: f"select: {len(sel)} rows, expected {len(exp)} [{tag}]")
        for row, mp in zip(sel, exp):
            require(isinstance(row, tuple) and len(row) == len(select_keys), lambda: f"select row shape {show(row)} [{tag}]")
            for key, v in zip(select_keys, row):
                if key == "time":
                    require(us_of(v) == mp.t, lambda: f"select time {show(v)} vs {show(mp.t)} [{tag}]")
                elif key == "measurement":
                    require(v == mp.m, lambda: f"select measurement {show(v)} vs {show(mp.m)} [{tag}]")
                elif key.startswith("tags."):
                    require(veq(v, mp.tags.get(key[5:])), lambda: f"select {key} {show(v)} vs {show(mp.tags.get(key[5:]))} [{tag}]")
                else:
                    require(veq(v, mp.fields.get(key[7:])), lambda: f"select {key} {show(v)} vs {show(mp.fields.get(key[7:]))} [{tag}]")
        require(len(sel1) == len(exp), lambda: f"select('time'): {len(sel1)} rows, expected {len(exp)} [{tag}]")
        for v, mp in zip(sel1, exp):
            require(us_of(v) == mp.t, lambda: f"select('time') {show(v)} vs {show(mp.t)} [{tag}]")

    # ---- index invariant (C06)
    # (check_reads temporarily rebinds self.compile when given qobj; instances are per path)
    def check_inv(self, what=""):
        from tinyflux.index import Index

        db = self.db
        if not db.index.valid:
            return False
        idx = db.index
        ref = Index()
        ref.build(iter(db))
        structural = ("_num_items", "_timestamps", "_storage_pos_sorted_by_ts", "_measurements", "_tags", "_fields")
        has_struct = all(hasattr(idx, a) and hasattr(ref, a) for a in structural)
        self._inv_observational(idx, ref, what, time_queries=not has_struct)
        if not has_struct:
            return True  # a refactored index: only the answers it gives are compared (above)
        require(idx._num_items == ref._num_items, lambda: f"INV {what}: _num_items {idx._num_items} vs rebuilt {ref._num_items}")
        require(len(idx) == len(ref), lambda: f"INV {what}: len")
        require(
            len(idx._timestamps) == len(ref._timestamps),
            lambda: f"INV {what}: {len(idx._timestamps)} timestamps vs rebuilt {len(ref._timestamps)}",
        )
        require(
            len(idx._storage_pos_sorted_by_ts) == len(ref._storage_pos_sorted_by_ts),
            lambda: f"INV {what}: {len(idx._storage_pos_sorted_by_ts)} positions vs rebuilt {len(ref._storage_pos_sorted_by_ts)}",
        )
        for a, b in zip(idx._timestamps, ref._timestamps):
            require(a == b, lambda: f"INV {what}: _timestamps {show(idx._timestamps)} vs rebuilt {show(ref._timestamps)}")
        # position arrays may legitimately differ in the order of equal timestamps: compare
        # as a mapping position -> timestamp, and require sortedness
        require(
            sorted(idx._storage_pos_sorted_by_ts) == sorted(ref._storage_pos_sorted_by_ts),
            lambda: f"INV {what}: positions {idx._storage_pos_sorted_by_ts} vs rebuilt {ref._storage_pos_sorted_by_ts}",
        )
        m1 = dict(zip(idx._storage_pos_sorted_by_ts, idx._timestamps))
        m2 = dict(zip(ref._storage_pos_sorted_by_ts, ref._timestamps))
        for k in m2:
            require(m1[k] == m2[k], lambda: f"INV {what}: position {k} has timestamp {show(m1[k])} vs rebuilt {show(m2[k])}")
        require(
            {k: list(v) for k, v in idx._measurements.items()} == ref._measurements,
            lambda: f"INV {what}: _measurements {idx._measurements} vs rebuilt {ref._measurements}",
        )
        require(
            {k: {a: list(b) for a, b in v.items()} for k, v in idx._tags.items()} == ref._tags,
            lambda: f"INV {what}: _tags {idx._tags} vs rebuilt {ref._tags}",
        )
        require(set(idx._fields) == set(ref._fields), lambda: f"INV {what}: field keys {sorted(idx._fields)} vs {sorted(ref._fields)}")
        for k in ref._fields:
            a, b = idx._fields[k], ref._fields[k]
            require(len(a) == len(b) and [i for i, _ in a] == [i for i, _ in b], lambda: f"INV {what}: _fields[{k}] positions {a} vs {b}")
            for (i, x), (_, y) in zip(a, b):
                require(veq(x, y), lambda: f"INV {what}: _fields[{k}][{i}] {show(x)} vs {show(y)}")
        return True


def _inv_observational(self, idx, ref, what, time_queries=True):
    """Every answer the index can give == the answer of an index rebuilt from storage
    (independent of how the index represents its data)."""
    from tinyflux import FieldQuery, MeasurementQuery, TagQuery, TimeQuery

    def same_set(a, b, name):
        require(sorted(a, key=repr) == sorted(b, key=repr), lambda: f"INV {what}: {name}: {show(a)} vs rebuilt {show(b)}")

    require(len(idx) == len(ref), lambda: f"INV {what}: len(index) {len(idx)} vs rebuilt {len(ref)}")
    require(idx.empty == ref.empty, lambda: f"INV {what}: empty {idx.empty} vs rebuilt {ref.empty}")
    ms = ref.get_measurements()
    same_set(idx.get_measurements(), ms, "get_measurements")
    for m in [None] + sorted(ms) + ["zz"]:
        same_set(idx.get_tag_keys(m), ref.get_tag_keys(m), f"get_tag_keys({m!r})")
        same_set(idx.get_field_keys(m), ref.get_field_keys(m), f"get_field_keys({m!r})")
        a, b = idx.get_tag_values([], m), ref.get_tag_values([], m)
        require(a == b, lambda: f"INV {what}: get_tag_values({m!r}) {a} vs rebuilt {b}")
        ta, tb = idx.get_timestamps(m), ref.get_timestamps(m)
        require(len(ta) == len(tb), lambda: f"INV {what}: get_timestamps({m!r}) {show(ta)} vs rebuilt {show(tb)}")
        for x, y in zip(ta, tb):
            require(x == y, lambda: f"INV {what}: get_timestamps({m!r}) {show(ta)} vs rebuilt {show(tb)}")
        for fk in sorted(ref.get_field_keys(None)):
            fa, fb = idx.get_field_values(fk, m), ref.get_field_values(fk, m)
            require(len(fa) == len(fb), lambda: f"INV {what}: get_field_values({fk!r},{m!r}) {show(fa)} vs rebuilt {show(fb)}")
            for x, y in zip(fa, fb):
                require(veq(x, y), lambda: f"INV {what}: get_field_values({fk!r},{m!r}) {show(fa)} vs rebuilt {show(fb)}")
    qs = [MeasurementQuery() == "m", MeasurementQuery() != "m"]
    for k, vals in ref.get_tag_values([], None).items():
        qs.append(TagQuery()[k].exists())
        for v in vals:
            qs.append(TagQuery()[k] == v)
    for fk in ref.get_field_keys(None):
        qs.append(FieldQuery()[fk].exists())
    for q in qs:
        a, b = idx.search(q).items, ref.search(q).items
        require(a == b, lambda: f"INV {what}: index.search({q!r}) {sorted(a)} vs rebuilt {sorted(b)}")
    pts = list(iter(self.db)) if time_queries else []
    for p in pts[:3]:
        for mk in (lambda t: TimeQuery() == t, lambda t: TimeQuery() < t, lambda t: TimeQuery() >= t):
            a, b = idx.search(mk(p.time)).items, ref.search(mk(p.time)).items
            require(a == b, lambda: f"INV {what}: index.search(time query at {show(p.time)}) {sorted(a)} vs rebuilt {sorted(b)}")


H._inv_observational = _inv_observational


def run_path(cfg, body):
    """Run body(H) inside a fresh context and clean up whatever happens."""
    h = H(cfg)
    try:
        h.open()
        body(h)
    finally:
        h.close()


# =========================================================================== operations
def _now_us():
    return (_dt.datetime.now(_dt.timezone.utc) - symtime.EPOCH) // _dt.timedelta(microseconds=1)


def _target(h, via):
    """The object operations are invoked on: the database or a measurement handle.

    With cfg["stale_handles"] the handle obtained first is kept and reused, so that later
    operations go through a handle that predates drop_measurement / remove_all."""
    if via is None:
        return h.db
    if h.cfg.get("stale_handles"):
        cache = h.__dict__.setdefault("handle_cache", {})
        if via not in cache:
            cache[via] = h.db.measurement(via)
        return cache[via]
    return h.db.measurement(via)


def op_insert(h, pspec, via=None, measurement=None, compact=False):
    """db.insert(point[, measurement]) or db.measurement(via).insert(point)."""
    from tinyflux import Point

    p, mp = h.mk_point(pspec)
    if pspec.get("time", SYM) is None:
        # a point without a time: bare constructor, attributes assigned afterwards
        q = Point()
        q.measurement = p.measurement
        q.tags = p.tags
        q.fields = p.fields
        p = q
    k = symtime.CLOCK.n
    lo = _now_us()
    kw = {}
    if measurement is not None:
        kw["measurement"] = measurement
    if compact:
        kw["compact_key_prefixes"] = True
    try:
        r = _target(h, via).insert(p, **kw)
    except Exception as e:
        fail(lambda: f"insert raised {type(e).__name__}: {e}")
    hi = _now_us()
    require(r == 1, lambda: f"insert returned {show(r)}")
    if mp.t is None:
        if lpe.is_symbolic() and h.storage == "mem":
            mp.t = symtime.CLOCK.value(k)
        else:
            got = us_of(p.time)
            require(lo <= got <= hi, lambda: f"insert stamped {got} outside call window [{lo},{hi}]")
            mp.t = got
    if via is not None:
        mp.m = via
    elif measurement:  # documented: optional measurement to insert into
        mp.m = measurement
    h.model.insert(mp)
    return mp


def op_insert_multiple(h, pspecs, via=None, measurement=None):
    pts, mps = [], []
    for s in pspecs:
        p, mp = h.mk_point(s)
        pts.append(p)
        mps.append(mp)
    try:
        r = _target(h, via).insert_multiple(iter(pts), **({"measurement": measurement} if measurement is not None else {}))
    except Exception as e:
        fail(lambda: f"insert_multiple raised {type(e).__name__}: {e}")
    require(r == len(pts), lambda: f"insert_multiple returned {show(r)}, expected {len(pts)}")
    for mp in mps:
        if via is not None:
            mp.m = via
        elif measurement:
            mp.m = measurement
        h.model.insert(mp)


def op_remove(h, qd, mfilter=None, via=None):
    q = h.compile(qd)
    try:
        if via is not None:
            r = _target(h, via).remove(q)
            mfilter = via
        elif mfilter is not None:
            r = h.db.remove(q, mfilter)
        else:
            r = h.db.remove(q)
    except Exception as e:
        fail(lambda: f"remove raised {type(e).__name__}: {e} [q={q_repr(qd)}]")
    n = h.model.remove(qd, mfilter)
    require(r == n, lambda: f"remove returned {show(r)}, model removed {n} [q={q_repr(qd)} measurement={show(mfilter)}]")


def op_remove_all(h, via=None):
    try:
        if via is None:
            r = h.db.remove_all()
            h.model.remove_all()
            require(r is None, lambda: f"remove_all returned {show(r)}")
        else:
            r = _target(h, via).remove_all()
            n = h.model.remove(None, via)
            require(r == n, lambda: f"Measurement.remove_all returned {show(r)}, model removed {n}")
    except Exception as e:
        fail(lambda: f"remove_all raised {type(e).__name__}: {e}")


def op_drop(h, name):
    try:
        r = h.db.drop_measurement(name)
    except Exception as e:
        fail(lambda: f"drop_measurement raised {type(e).__name__}: {e}")
    n = h.model.remove(None, name)
    require(r == n, lambda: f"drop_measurement({show(name)}) returned {show(r)}, model removed {n}")


def build_update(h, us):
    """updspec -> (kwargs for tinyflux, model change function)."""
    kw, mk = {}, {}
    t = us.get("time")
    if t is not None:
        if t[0] == "static":
            v = h.time_us("u") if t[1] == SYM else t[1]
            kw["time"] = mk_time(v)
            mk["time"] = v
        elif t[0] == "callable_off":  # ("callable_off", delta_us, offset_us): result in another zone
            d, off = t[1], t[2]
            kw["time"] = lambda old, d=d, off=off: mk_time(us_of(old) + d, off)
            mk["time"] = lambda old, d=d: old + d
        else:  # ("callable", delta_us)
            d = t[1]
            kw["time"] = lambda old, d=d: old + _dt.timedelta(microseconds=d)
            mk["time"] = lambda old, d=d: old + d
    m = us.get("measurement")
    if m is not None:
        if isinstance(m, str):
            kw["measurement"] = m
            mk["measurement"] = m
        else:  # ("callable", suffix)
            sfx = m[1]
            kw["measurement"] = lambda old, s=sfx: old + s
            mk["measurement"] = lambda old, s=sfx: old + s
    for attr in ("tags", "fields"):
        d = us.get(attr)
        if d is None:
            continue
        callable_ = isinstance(d, tuple)
        if callable_:
            mode, d = d[1], d[2]
        vals = {}
        for k, v in d.items():
            if v == SYM:
                v = h.tagval("ut") if attr == "tags" else h.fval("uf")
            vals[k] = v
        if callable_:
            if mode == "const":
                kw[attr] = lambda old, vals=vals: dict(vals)
                mk[attr] = lambda old, vals=vals: dict(vals)
            elif mode == "mutate":  # edits the mapping it is given and returns that same object
                kw[attr] = lambda old, vals=vals: (old.update(vals) or old)
                mk[attr] = lambda old, vals=vals: {**old, **vals}
            else:  # "merge": returns old merged with vals
                kw[attr] = lambda old, vals=vals: {**old, **vals}
                mk[attr] = lambda old, vals=vals: {**old, **vals}
        else:
            kw[attr] = dict(vals)
            mk[attr] = dict(vals)
    for attr in ("unset_tags", "unset_fields"):
        if us.get(attr) is not None:
            kw[attr] = us[attr]
            mk[attr] = us[attr]
    return kw, make_change(**mk)


def op_update(h, qd, us, via=None, all_=False):
    kw, change = build_update(h, us)
    try:
        if all_:
            if via is None:
                r = h.db.update_all(**kw)
            else:
                r = _target(h, via).update_all(**kw)
        else:
            r = _target(h, via).update(h.compile(qd), **kw)
    except Exception as e:
        fail(lambda: f"update raised {type(e).__name__}: {e} [q={qd and q_repr(qd)} {us}]")
    n = h.model.update(None if all_ else qd, via, change)
    require(r == n, lambda: f"update returned {show(r)}, model changed {n} points [q={qd and q_repr(qd)} {us} via={show(via)}]")


class _Boom(RuntimeError):
    pass


def op_update_fail(h, qd, slot):
    """update() that edits tags statically and whose `slot` callable raises on its 2nd call:
    the call must raise and leave the contents (model) untouched."""
    n = [0]

    def cb(old):
        n[0] += 1
        if n[0] >= 2:
            raise _Boom("user callable failed")
        return {"zz": "1"} if slot == "tags" else {"zz": 1}

    kw = {slot: cb}
    if slot == "fields":
        kw["tags"] = {"zz": "static"}
    nsel = len(h.model.matches(qd, None))
    try:
        r = h.db.update(h.compile(qd), **kw)
    except _Boom:
        require(nsel >= 2, lambda: "update raised although fewer than two points were selected")
        return
    except Exception as e:
        fail(lambda: f"update with a raising callable raised {type(e).__name__}: {e}")
    require(nsel < 2, lambda: f"update with a callable that raises on its 2nd call returned {r} for {nsel} selected points")
    ch = make_change(**({"tags": {"zz": "1"}} if slot == "tags" else {"fields": {"zz": 1}, "tags": {"zz": "static"}}))
    nchg = h.model.update(qd, None, ch)
    require(r == nchg, lambda: f"update returned {r}, model changed {nchg}")


def op_insert_multiple_fail(h, pspecs):
    """insert_multiple whose last element is not a Point: raises, the prefix stays stored."""
    pts, mps = [], []
    for s in pspecs:
        p, mp = h.mk_point(s)
        pts.append(p)
        mps.append(mp)
    try:
        h.db.insert_multiple(pts + ["not a point"])
    except TypeError:
        for mp in mps:
            h.model.insert(mp)
        return
    except Exception as e:
        fail(lambda: f"insert_multiple with a non-Point raised {type(e).__name__}: {e}")
    fail("insert_multiple with a non-Point did not raise")


def op_reindex(h):
    try:
        if not h.db.index.valid:
            h.db.reindex()
    except Exception as e:
        fail(lambda: f"reindex raised {type(e).__name__}: {e}")


def apply_op(h, op):
    k = op[0]
    if k == "ins":
        return op_insert(h, *op[1:])
    if k == "insm":
        return op_insert_multiple(h, *op[1:])
    if k == "rm":
        return op_remove(h, h.q(op[1]), *op[2:])
    if k == "rmall":
        return op_remove_all(h, *op[1:])
    if k == "drop":
        return op_drop(h, *op[1:])
    if k == "upd":
        return op_update(h, h.q(op[1]), *op[2:])
    if k == "updall":
        return op_update(h, None, op[1], *(op[2:] or (None,)), all_=True)
    if k == "upd_fail":
        return op_update_fail(h, h.q(op[1]), op[2])
    if k == "insm_fail":
        return op_insert_multiple_fail(h, op[1])
    if k == "reindex":
        return op_reindex(h)
    if k == "reopen":
        return h.reopen()
    if k == "read":  # a read in the middle of a history: result checked too
        return h.check_reads(h.q(op[1]), *(op[2:] or (None,)), what="mid-history read")
    raise ValueError(op)
