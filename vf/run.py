"""Runner: python -m vf.run <PROPERTY> <quick|thorough>  |  --replay <file>

Builds the obligations of a property from /repo's current working tree, discharges them
on all cores, replays every counterexample concretely against the real code (no stubs),
classifies reproduced counterexamples against /verif/known_findings.json, writes
evidence/<id>.json, prints VIOLATION / KNOWN-FINDING lines and sets the exit code:

    0  the property held on everything explored (inconclusive obligations are listed)
    1  a reproduced violation that is not a listed known finding
    2  harness / engine error (non-reproducing counterexample, nondeterminism, vacuity)
"""
import hashlib
import importlib
import json
import multiprocessing as mp
import os
import sys
import time
import traceback

VERIF = os.path.dirname(os.path.dirname(os.path.abspath(__file__)))
REPO = os.environ.get("VF_REPO", "/repo")
sys.dont_write_bytecode = True
if REPO not in sys.path:
    sys.path.insert(0, REPO)
sys.setrecursionlimit(20000)


def _assert_repo():
    import tinyflux

    f = os.path.realpath(tinyflux.__file__)
    if not f.startswith(os.path.realpath(REPO) + os.sep):
        print(f"HARNESS-ERROR tinyflux imported from {f}, expected under {REPO}")
        sys.exit(2)


def load_findings():
    p = os.path.join(VERIF, "known_findings.json")
    if not os.path.exists(p):
        return []
    return json.load(open(p)).get("findings", [])


def open_findings(prop):
    return [f for f in load_findings() if f.get("property") == prop and f.get("status") == "open"]


def prop_module(prop):
    return importlib.import_module(f"vf.props.{prop.lower()}")


# ------------------------------------------------------------------------- worker


def _run_lpe(mod, ob, exclude):
    from . import lpe

    params = dict(ob["params"])
    params["exclude"] = sorted(exclude)
    eng = lpe.Engine(budget_s=ob.get("budget_s", 60.0), presets=ob.get("presets"))
    fn = mod.HARNESS[ob["harness"]]
    res = eng.explore(lambda: fn(params))
    if res["verdict"] == "cex":
        rep = lpe.ConcreteEngine(_shift_to_real_clock(res["inputs"])).run(lambda: fn(params))
        if rep.get("verdict") != "cex" and ob.get("replay_zones"):
            # counterexamples that involve naive (local) times: replay under each process zone
            import os
            import time as _t

            old = os.environ.get("TZ")
            try:
                for z in ob["replay_zones"]:
                    os.environ["TZ"] = z
                    _t.tzset()
                    rep = lpe.ConcreteEngine(_shift_to_real_clock(res["inputs"])).run(lambda: fn(params))
                    if rep.get("verdict") == "cex":
                        rep["zone"] = z
                        break
            finally:
                if old is None:
                    os.environ.pop("TZ", None)
                else:
                    os.environ["TZ"] = old
                _t.tzset()
            if rep.get("verdict") != "cex":
                rep["unrealised_zone_model"] = True
        res["replay"] = rep
    return res


class _HardTimeout(BaseException):
    pass


def _on_alarm(signum, frame):
    raise _HardTimeout()


def _shift_to_real_clock(inputs):
    """Counterexamples that involve the symbolic insertion clock (`clock<k>` inputs) relate stored /
    compared times to "now".  The replay runs on the real clock, so every time input (t*, x*, u*:
    microseconds) is shifted by the same amount such that the model's first clock value becomes the
    present; all order relations between times and clock values are preserved."""
    import re as _re
    import time as _t

    if not inputs:
        return inputs
    clocks = [v for k, v in inputs.items() if _re.fullmatch(r"clock\d+", k) and isinstance(v, int)]
    if not clocks:
        return inputs
    delta = int(_t.time() * 1_000_000) + 2_000_000 - min(clocks)
    out = dict(inputs)
    for k, v in inputs.items():
        if _re.fullmatch(r"[txu]\d+", k) and isinstance(v, int):
            out[k] = v + delta
    return out


def run_ob(ob):
    """Discharge one obligation (in a worker process)."""
    import signal

    t0 = time.time()
    out = {"id": ob["id"], "harness": ob["harness"], "engine": ob.get("engine", "lpe"), "known": [], "params": ob["params"]}
    # watchdog: a change under test may make the real code loop forever; the engines only
    # look at their budget between decisions
    hard = int(ob.get("budget_s", 60) * 4 + 120)
    try:
        signal.signal(signal.SIGALRM, _on_alarm)
        signal.alarm(hard)
    except Exception:
        pass
    try:
        mod = prop_module(ob["prop"])
        fids = {f["id"]: f for f in open_findings(ob["prop"])}
        exclude = set(ob.get("exclude", []))
        agg = {"paths": 0, "queries": 0, "solver_s": 0.0, "paths_ok": 0}
        for _ in range(8):
            eng = ob.get("engine", "lpe")
            if eng == "lpe":
                res = _run_lpe(mod, ob, exclude)
            elif eng == "ch":
                from . import chdrv

                res = chdrv.run(mod, ob, exclude)
            else:
                res = mod.run_custom(ob, exclude)
            for k in agg:
                agg[k] += res.get(k, 0) or 0
            if res["verdict"] != "cex":
                break
            rep = res.get("replay") or {}
            if rep.get("verdict") != "cex":
                break  # not reproduced: reported as harness error by the parent
            fid = None
            if hasattr(mod, "classify"):
                fid = mod.classify(ob, res)
            if fid is None or fid not in fids or fid in exclude:
                break
            out["known"].append({"finding": fid, "inputs": res.get("inputs"), "msg": rep.get("msg") or res.get("msg")})
            exclude.add(fid)
        out.update(res)
        out.update(agg)
        out["solver_s"] = round(agg["solver_s"], 3)
        out["excluded"] = sorted(exclude)
    except _HardTimeout:
        out.update(verdict="inconclusive", msg=f"hard timeout: the obligation did not finish within {hard} s (possible non-termination of the code under test)")
    except BaseException as e:  # noqa
        out.update(verdict="error", msg=f"{type(e).__name__}: {e}", tb=traceback.format_exc()[-2000:])
    finally:
        try:
            signal.alarm(0)
        except Exception:
            pass
    out["ob_wall_s"] = round(time.time() - t0, 3)
    return out


def _init_worker():
    _assert_repo()


# ------------------------------------------------------------------------- main


def _short(x, n=300):
    s = x if isinstance(x, str) else json.dumps(x, default=str, sort_keys=True)
    return s if len(s) <= n else s[: n - 3] + "..."


def write_replay(prop, r):
    os.makedirs(os.path.join(VERIF, "replays"), exist_ok=True)
    body = {
        "property": prop,
        "obligation": r["id"],
        "harness": r["harness"],
        "engine": r.get("engine"),
        "params": r.get("params"),
        "excluded": r.get("excluded", []),
        "inputs": r.get("inputs"),
        "message": (r.get("replay") or {}).get("msg") or r.get("msg"),
        "notes": (r.get("replay") or {}).get("notes") or r.get("notes"),
    }
    h = hashlib.sha1(json.dumps(body, sort_keys=True, default=str).encode()).hexdigest()[:10]
    path = os.path.join(VERIF, "replays", f"{prop}-{r['harness']}-{h}.json")
    json.dump(body, open(path, "w"), indent=1, default=str, sort_keys=True)
    return path


def main(argv):
    if len(argv) >= 2 and argv[0] == "--replay":
        return replay_file(argv[1])
    prop, tier = argv[0], (argv[1] if len(argv) > 1 else os.environ.get("VERIF_TIER", "quick"))
    seed = int(os.environ.get("VERIF_SEED", "0") or 0)
    _assert_repo()
    t0 = time.time()
    mod = prop_module(prop)
    pre = mod.preflight(tier) if hasattr(mod, "preflight") else {}
    obs = mod.obligations(tier)
    for i, ob in enumerate(obs):
        ob.setdefault("prop", prop)
        ob.setdefault("engine", "lpe")
    # seed only changes scheduling order
    import random

    order = list(range(len(obs)))
    random.Random(seed).shuffle(order)
    # longest first helps the tail; keep the shuffled order within equal budgets
    order.sort(key=lambda i: -obs[i].get("weight", obs[i].get("budget_s", 60)))
    nproc = int(os.environ.get("VF_JOBS", "0") or 0) or min(16, os.cpu_count() or 1)
    results = []
    ctx = mp.get_context("fork")
    with ctx.Pool(nproc, initializer=_init_worker, maxtasksperchild=int(os.environ.get("VF_MAXTASKS", "200"))) as pool:
        for r in pool.imap_unordered(run_ob, [obs[i] for i in order], chunksize=1):
            results.append(r)
    results.sort(key=lambda r: r["id"])
    return report(prop, tier, seed, mod, obs, results, pre, t0)


def report(prop, tier, seed, mod, obs, results, pre, t0):
    listed = {f["id"]: f for f in open_findings(prop)}
    violations, errors, inconclusive, known_hits = [], [], [], {}
    twins_ok = twins = 0
    replays = 0
    for r in results:
        for k in r.get("known", []):
            known_hits.setdefault(k["finding"], []).append((r["id"], k))
            replays += 1
        twin = bool((r.get("params") or {}).get("twin"))
        if twin:
            twins += 1
            if r["verdict"] == "cex":
                twins_ok += 1
                replays += 1
            elif r["verdict"] == "inconclusive":
                inconclusive.append(r)  # the family itself is inconclusive (e.g. unsupported construct)
            else:
                errors.append((r, f"reachability twin did not fail (verdict {r['verdict']}: {r.get('msg')})"))
            continue
        v = r["verdict"]
        if v == "holds":
            continue
        if v == "inconclusive":
            inconclusive.append(r)
        elif v == "cex":
            rep = r.get("replay") or {}
            replays += 1
            if rep.get("verdict") == "cex":
                violations.append(r)
            elif rep.get("unrealised_zone_model"):
                # the solver chose local UTC offsets that none of the replay zones has
                r["msg"] = f"candidate needs a local-offset model that none of the replay zones realises ({_short(r.get('msg'), 200)})"
                inconclusive.append(r)
            elif r.get("engine") == "ch":
                # CrossHair's models of some library operations are approximate; a candidate that
                # the real code does not reproduce decides nothing
                r["msg"] = f"CrossHair candidate did not reproduce on the real code ({_short(r.get('msg'), 200)})"
                inconclusive.append(r)
            else:
                errors.append((r, f"counterexample did not reproduce on the real code (replay: {rep})"))
        else:
            errors.append((r, r.get("msg")))
    xinfo = None
    if hasattr(mod, "crosscheck"):
        xinfo, xerrs = mod.crosscheck(results)
        for why in xerrs:
            errors.append(({"id": "cross-validation"}, why))
    lines = []
    for fid, hits in sorted(known_hits.items()):
        f = listed.get(fid, {})
        lines.append(f"KNOWN-FINDING: property={prop} {fid}: {f.get('what', '')} (confirmed on {len(hits)} obligation(s), e.g. {hits[0][0]}: {_short(hits[0][1].get('msg'), 160)})")
    vio_paths = []
    for r in violations:
        path = write_replay(prop, r)
        vio_paths.append(path)
        lines.append(f"VIOLATION property={prop} replay={path}")
        lines.append(f"  obligation={r['id']} msg={_short((r.get('replay') or {}).get('msg') or r.get('msg'), 400)}")
        lines.append(f"  inputs={_short(r.get('inputs'), 400)}")
    for r, why in errors:
        lines.append(f"HARNESS-ERROR property={prop} obligation={r['id']}: {_short(why, 600)}")
        if r.get("tb"):
            lines.append("  " + r["tb"].replace("\n", "\n  "))
    for r in inconclusive:
        lines.append(f"INCONCLUSIVE property={prop} obligation={r['id']}: {_short(r.get('msg'), 200)} after {r.get('paths')} paths")
    real = [r for r in results if not (r.get("params") or {}).get("twin")]
    discharged = sum(1 for r in real if r["verdict"] == "holds")
    paths = sum(r.get("paths", 0) or 0 for r in results)
    paths_ok = sum(r.get("paths_ok", 0) or 0 for r in results if r.get("engine") == "lpe") + sum(
        r.get("paths", 0) or 0 for r in results if r.get("engine") != "lpe" and r.get("verdict") == "holds"
    )
    queries = sum(r.get("queries", 0) or 0 for r in results)
    solver_s = round(sum(r.get("solver_s", 0) or 0 for r in results), 2)
    table = [
        {
            "obligation": r["id"],
            "harness": r["harness"],
            "engine": r.get("engine"),
            "verdict": r["verdict"] if not r.get("known") else r["verdict"] + "+known-finding-excluded",
            "exhausted": r["verdict"] == "holds",
            "paths": r.get("paths"),
            "smt_queries": r.get("queries"),
            "solver_s": r.get("solver_s"),
            "wall_s": r.get("ob_wall_s"),
            "excluded_findings": r.get("excluded", []),
            "params": _short(r.get("params"), 240),
        }
        for r in results
    ]
    # keep the evidence file readable: full table up to 60 rows, then every k-th
    step = max(1, len(table) // 60)
    samples = table[::step]
    ev = {
        "property_id": prop,
        "tier": tier,
        "seed": seed,
        "level": getattr(mod, "LEVEL", "model_checking"),
        "coverage": {
            "evaluations": max(paths, 1),
            "distinct_nontrivial": paths_ok,
            "rule": "one evaluation = one complete execution path of a harness through the real code, selected by the solver-checked "
            "decision sequence (depth-first, every feasible branch side exactly once, so paths are pairwise distinct by construction); "
            "non-trivial = the path satisfied all assumptions and ran to the end of the harness with every assertion evaluated "
            "(paths cut by an infeasible assumption or by a fault selector beyond the operation's last I/O call are not counted)",
            "states": max(paths, 1),
            "transitions": max(queries, 1),
            "traces_validated_against_impl": replays + int(pre.get("validated", 0)),
            "samples": samples,
            "obligations": len(real),
            "discharged": discharged,
            "inconclusive": [
                {"obligation": r["id"], "why": r.get("msg"), "paths_explored": r.get("paths")} for r in inconclusive
            ],
            "reachability_twins": {"run": twins, "failed_as_required": twins_ok},
            "known_findings_confirmed": sorted(known_hits),
            "solver_s": solver_s,
            "exhaustive": bool(real) and discharged == len(real),
            "explanation": "states = complete execution paths explored symbolically; transitions = SMT queries discharged; "
            "an obligation is 'discharged' only when its whole decision tree was exhausted with every assertion holding",
            "functions_encoded": getattr(mod, "FUNCTIONS_ENCODED", []),
            "bounds": getattr(mod, "BOUNDS", {}).get(tier, getattr(mod, "BOUNDS", {})),
            "engines": sorted({r.get("engine") for r in results if r.get("engine")}),
            "preflight": pre,
            "cross_validation": xinfo,
            "trusted_base": getattr(mod, "TRUSTED", []),
        },
        "assumptions": getattr(mod, "ASSUMPTIONS", []),
        "wall_s": round(time.time() - t0, 2),
        "violations": len(violations),
    }
    # runs against a scratch copy of the repository (self-test with seeded changes) must not
    # overwrite the evidence of the real tree
    evdir = os.environ.get("VF_EVIDENCE_DIR") or os.path.join(VERIF, "evidence")
    os.makedirs(evdir, exist_ok=True)
    json.dump(ev, open(os.path.join(evdir, f"{prop}.json"), "w"), indent=1, default=str)
    for ln in lines:
        print(ln)
    print(
        f"SUMMARY property={prop} tier={tier} obligations={len(real)} discharged={discharged} "
        f"inconclusive={len(inconclusive)} violations={len(violations)} known_findings={len(known_hits)} "
        f"errors={len(errors)} paths={paths} smt_queries={queries} solver_s={solver_s} wall_s={ev['wall_s']}"
    )
    if violations:
        return 1  # a violation reproduced on the real code stands, whatever else went wrong
    if errors:
        return 2
    return 0


def replay_file(path):
    _assert_repo()
    body = json.load(open(path))
    mod = prop_module(body["property"])
    if hasattr(mod, "replay"):
        rep = mod.replay(body)
    else:
        from . import lpe

        params = dict(body["params"] or {})
        params["exclude"] = body.get("excluded", [])
        rep = lpe.ConcreteEngine(_shift_to_real_clock(body["inputs"] or {})).run(lambda: mod.HARNESS[body["harness"]](params))
    print(json.dumps(rep, indent=1, default=str))
    if rep.get("verdict") == "cex":
        print(f"VIOLATION property={body['property']} replay={path}")
        return 1
    print("replay: property held on this input")
    return 0


if __name__ == "__main__":
    try:
        rc = main(sys.argv[1:])
    except SystemExit:
        raise
    except BaseException as e:  # noqa: an uncaught exception must never look like a violation (exit 1)
        traceback.print_exc()
        print(f"HARNESS-ERROR {type(e).__name__}: {e}")
        rc = 2
    sys.exit(rc)
