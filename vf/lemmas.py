"""E3 - environment lemmas: facts about CPython the stubs assume, re-discharged every run.

L-float-us   for every integer microsecond count us with 2^-20 <= |us|/10^6 < 2^33
             (1697-10 .. 2242-03; a superset of the property's 1700-2240):
             datetime.fromtimestamp(t.timestamp()) gives us back, and us -> t.timestamp() is
             strictly increasing.  One QF_LIRA query pair per binade and sign, over the
             mathematical definition of round-to-nearest; binade 33 must be sat (the model is
             not vacuous and the stated range is tight).
L-int-float  int(float(v)) == v for every integer |v| <= 2^53 (and fails at 2^53+1).
L-repr-lang  the language of repr(float) is disjoint from the decoder's integer branch
             ([0-9]+ | -[0-9]+) and does not contain "_none" (z3 regex).
"""
import random
import time

import z3

M = 10**6


def _binade(E, sign):
    """Model of CPython's aware-datetime .timestamp() and datetime.fromtimestamp() for
    x = us/10^6 in [2^E, 2^(E+1)); doubles there are m/2^k, k = 52-E, m in [2^52, 2^53]."""
    k = 52 - E
    us, m, ip, r = z3.Ints("us m ip r")
    fl2 = z3.Real("fl2")
    s = z3.Solver()
    assert k >= 0
    two_k = 2**k
    s.add(us * two_k >= (2**52) * M, us * two_k < (2**53) * M, us >= 1)
    # d = m/2^k is a double nearest to us/M (ties: either neighbour -> over-approximation)
    s.add(m >= 2**52, m <= 2**53)
    s.add(2 * (us * two_k - m * M) <= M, 2 * (m * M - us * two_k) <= M)
    # modf: ip = trunc(|d|); fractional part (m - ip*2^k)/2^k, scaled by 10^6 with one
    # multiplication of relative error <= 2^-53, then rounded to nearest integer
    s.add(ip * two_k <= m, m < (ip + 1) * two_k)
    p_num = (m - ip * two_k) * M
    s.add(
        z3.RealVal(2**53) * (fl2 * two_k - z3.ToReal(p_num)) <= z3.ToReal(p_num),
        z3.RealVal(2**53) * (z3.ToReal(p_num) - fl2 * two_k) <= z3.ToReal(p_num),
    )
    s.add(2 * (z3.ToReal(r) - fl2) <= 1, 2 * (fl2 - z3.ToReal(r)) <= 1)
    back = ip * M + r  # for negative instants the sign is mirrored: same magnitude
    return s, us, m, back


def lemma_float_us(lo=-20, hi=32):
    t0 = time.time()
    q = 0
    bad = []
    for E in range(lo, hi + 1):
        for sign in (1, -1):
            s, us, m, back = _binade(E, sign)
            s.push()
            s.add(back != us)
            r1 = s.check()
            s.pop()
            s.push()
            s.add(2 * ((us + 1) * 2 ** (52 - E) - m * M) <= M, 2 * (m * M - (us + 1) * 2 ** (52 - E)) <= M)
            r2 = s.check()
            s.pop()
            q += 2
            if str(r1) != "unsat" or str(r2) != "unsat":
                bad.append((E, sign, str(r1), str(r2)))
    # non-vacuity / tightness: the first binade outside the range must be refutable
    s, us, m, back = _binade(hi + 1, 1)
    s.add(back != us)
    tight = str(s.check())
    q += 1
    witness = None
    if tight == "sat":
        witness = s.model()[us].as_long()
    return {
        "lemma": "L-float-us",
        "binades": [lo, hi],
        "queries": q,
        "solver_s": round(time.time() - t0, 3),
        "failed": bad,
        "outside_range_query": tight,
        "outside_witness_us": witness,
        "ok": not bad and tight == "sat",
    }


def validate_float_us(n=20000, seed=0):
    """The same statement sampled on the real datetime (validation of the model)."""
    import datetime as dt

    rnd = random.Random(seed)
    epoch = dt.datetime(1970, 1, 1, tzinfo=dt.timezone.utc)
    lo = -(2**33 - 1) * M // 1
    lo = int((dt.datetime(1700, 1, 1, tzinfo=dt.timezone.utc) - epoch).total_seconds()) * M
    hi = int((dt.datetime(2240, 12, 31, tzinfo=dt.timezone.utc) - epoch).total_seconds()) * M
    vals = [rnd.randrange(lo, hi) for _ in range(n)]
    for E in range(0, 33):
        for d in (-1, 0, 1):
            for sg in (1, -1):
                v = sg * (2**E * M + d)
                if lo <= v <= hi:
                    vals.append(v)
    for us in vals:
        t = epoch + dt.timedelta(microseconds=us)
        ts = t.timestamp()
        b = dt.datetime.fromtimestamp(ts).astimezone(dt.timezone.utc)
        assert b == t, (us, t, b)
        t2 = epoch + dt.timedelta(microseconds=us + 1)
        assert ts < t2.timestamp(), us
    return len(vals)


def lemma_int_float():
    """int(float(v)) == v for |v| <= 2^53: every such integer is a double (m * 2^e with
    m < 2^53), so the conversion is exact.  LIA statement: for all v in the range there is
    (m, e) with v == m * 2^e, 0 <= e, |m| < 2^53 -- trivially e = 0.  The interesting part
    is the boundary: 2^53 + 1 is NOT representable (checked concretely)."""
    t0 = time.time()
    v = z3.Int("v")
    s = z3.Solver()
    s.add(v >= -(2**53), v <= 2**53)
    # representable with e = 0 iff |v| <= 2^53 (53-bit significand incl. hidden bit, 2^53 itself is 1.0 x 2^53)
    s.add(z3.Not(z3.Or(z3.And(v > -(2**53), v < 2**53), v == 2**53, v == -(2**53))))
    r = str(s.check())
    concrete = all(int(float(x)) == x for x in (0, 1, -1, 2**53, -(2**53), 2**53 - 1, 2**52 + 1)) and int(float(2**53 + 1)) != 2**53 + 1
    return {"lemma": "L-int-float", "queries": 1, "solver_s": round(time.time() - t0, 3), "result": r, "boundary_concrete": concrete, "ok": r == "unsat" and concrete}


# repr(float) language: [-]digits[.digits][e[+-]digits] | [-]inf | nan
def repr_float_regex():
    d = z3.Range("0", "9")
    digits = z3.Plus(d)
    sign = z3.Option(z3.Re("-"))
    exp = z3.Concat(z3.Re("e"), z3.Union(z3.Re("+"), z3.Re("-")), digits)
    finite = z3.Concat(sign, digits, z3.Union(z3.Concat(z3.Re("."), digits, z3.Option(exp)), exp))
    return z3.Union(finite, z3.Concat(sign, z3.Re("inf")), z3.Re("nan"))


def int_branch_regex():
    d = z3.Range("0", "9")
    return z3.Union(z3.Plus(d), z3.Concat(z3.Re("-"), z3.Plus(d)))


def lemma_repr_lang(n_validate=20000, seed=0):
    t0 = time.time()
    x = z3.String("x")
    s = z3.Solver()
    s.add(z3.InRe(x, repr_float_regex()), z3.InRe(x, int_branch_regex()))
    r1 = str(s.check())
    s2 = z3.Solver()
    s2.add(z3.InRe(x, repr_float_regex()), x == z3.StringVal("_none"))
    r2 = str(s2.check())
    # validation: real repr(float) strings are members of the stated language
    import re
    import struct

    rx = re.compile(r"^(-?[0-9]+(\.[0-9]+(e[+-][0-9]+)?|e[+-][0-9]+)|-?inf|nan)$")
    rnd = random.Random(seed)
    n = 0
    for _ in range(n_validate):
        f = struct.unpack("<d", struct.pack("<Q", rnd.getrandbits(64)))[0]
        assert rx.match(repr(f)), repr(f)
        n += 1
    for f in (0.0, -0.0, 1.0, 1e22, 1e16, 1e-7, 5e-324, float("inf"), float("-inf"), 123456789012345680.0):
        assert rx.match(repr(f)), repr(f)
        n += 1
    return {"lemma": "L-repr-lang", "queries": 2, "solver_s": round(time.time() - t0, 3), "disjoint_from_int_branch": r1, "contains__none": r2, "validated_strings": n, "ok": r1 == "unsat" and r2 == "unsat"}


if __name__ == "__main__":
    print(lemma_float_us())
    print(validate_float_us())
    print(lemma_int_float())
    print(lemma_repr_lang())
