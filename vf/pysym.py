"""E2 - "pysym": direct symbolic interpretation of real source (AST -> z3 terms).

CrossHair realises a symbolic str as soon as it is hashed (stored as a dict key), which
turns "for all keys" into an endless enumeration.  For the two codec functions
(Point._serialize_to_list / Point._deserialize_from_list) the *source* is interpreted
directly: inspect.getsource of the live functions -> ast -> this interpreter.  Values
are Python constants or z3 terms of sort String / Int / Bool; dicts are association
lists (no hashing); a branch on a symbolic condition is a decision of the surrounding
lpe engine (feasibility query, depth-first exploration); the row shape (number of tag
and field cells) is concrete per obligation, so all loops unroll.

Unknown constructs raise Unsupported (-> the obligation is inconclusive, never a
violation).  Abstract values:
    Time(tok)   an opaque UTC instant; replace(tzinfo=..)/isoformat()/fromisoformat() are
                modelled as mutually inverse token operations (CPython facts, validated
                concretely in the preflight)
    FloatVal    an abstract non-NaN double; str(x) is a fresh string constrained to the
                language of repr(float) (lemma L-repr-lang) and float(str(x)) == x
                (CPython's repr round-trip guarantee, assumed)
"""
import ast
import inspect
import textwrap

import z3

from . import lemmas, lpe


class Unsupported(lpe.Inconclusive):
    pass


class ZS:
    """symbolic str; `origin` = (e0, k) when the value is the suffix e0[k:] of another term"""

    __slots__ = ("e", "origin")

    def __init__(self, e, origin=None):
        self.e = e if not isinstance(e, str) else z3.StringVal(e)
        self.origin = origin

    def __repr__(self):
        return f"ZS({self.e})"


class ZB:
    __slots__ = ("e",)

    def __init__(self, e):
        self.e = e


class Time:
    def __init__(self, tok, aware=True, iso=False):
        self.tok, self.aware, self.iso = tok, aware, iso

    def __repr__(self):
        return f"Time({self.tok},aware={self.aware},iso={self.iso})"


class FloatVal:
    """abstract double; src = the SymInt / int it was converted from (or None)"""

    def __init__(self, tok, src=None):
        self.tok, self.src = tok, src

    def __repr__(self):
        return f"FloatVal({self.tok})"


class AssocDict:
    def __init__(self, pairs=None):
        self.pairs = list(pairs or [])


class PyObj:
    def __init__(self, **attrs):
        self.__dict__.update(attrs)


class BreakEx(Exception):
    pass


class ContinueEx(Exception):
    pass


class ReturnEx(Exception):
    def __init__(self, v):
        self.v = v


class PyRaise(Exception):
    def __init__(self, exc):
        self.exc = exc


def zs(v):
    return v.e if isinstance(v, ZS) else z3.StringVal(v)


def decide(cond):
    return lpe.CUR.decide(cond)


REPR_RE = lemmas.repr_float_regex()
DIGITS = z3.Plus(z3.Range("0", "9"))


class Interp:
    def __init__(self, consts, funcs=None, methods=None):
        self.consts = consts
        self.funcs = funcs or {}  # module-level helper functions of the codec's module: name -> FunctionDef
        self.methods = methods or {}  # other methods of the class: name -> (FunctionDef, is_static)
        self.depth = 0
        self.reprs = {}  # id of repr-string term -> FloatVal
        self.nodes = set()

    def apply(self, defn, args, kw, bound=None):
        """Inline a helper function of the code under analysis (bounded call depth)."""
        if self.depth >= 6:
            raise Unsupported("translator: helper call depth 6 exceeded")
        a = defn.args
        if a.vararg or a.kwarg or a.kwonlyargs or a.posonlyargs:
            raise Unsupported(f"translator: signature of helper {defn.name}")
        names = [x.arg for x in a.args]
        env = {}
        pos = list(args)
        if bound is not None:
            pos = [bound] + pos
        if len(pos) > len(names):
            raise Unsupported(f"translator: too many arguments for helper {defn.name}")
        for nme, v in zip(names, pos):
            env[nme] = v
        for k, v in kw.items():
            if k not in names or k in env:
                raise Unsupported(f"translator: keyword {k} for helper {defn.name}")
            env[k] = v
        for nme, d in zip(reversed(names), reversed(a.defaults)):
            if nme not in env:
                env[nme] = self.ev(d, {})
        if set(names) - set(env):
            raise Unsupported(f"translator: missing arguments for helper {defn.name}")
        self.depth += 1
        try:
            self.run(defn.body, env)
        except ReturnEx as r:
            return r.v
        finally:
            self.depth -= 1
        return None

    # ---- abstract float <-> str
    def float_to_str(self, f):
        r = z3.String(f"repr_{f.tok}")
        lpe.CUR.assume(lpe.SymBool(z3.InRe(r, REPR_RE)))
        self.reprs[r.get_id()] = (f, r)
        return ZS(r)

    def truth(self, v):
        if isinstance(v, ZB):
            return decide(v.e)
        if isinstance(v, ZS):
            return decide(z3.Length(v.e) > 0)
        if isinstance(v, (Time, PyObj)):
            return True
        if isinstance(v, AssocDict):
            return bool(v.pairs)
        if isinstance(v, (lpe.SymBool, lpe.SymInt)):
            return bool(v)
        if isinstance(v, FloatVal):
            raise Unsupported("truth value of an abstract float")
        return bool(v)

    # ---- expressions
    def ev(self, n, env):
        self.nodes.add(type(n).__name__)
        m = getattr(self, "e_" + type(n).__name__, None)
        if m is None:
            raise Unsupported(f"translator: unsupported expression {type(n).__name__} at line {getattr(n, 'lineno', '?')}")
        return m(n, env)

    def e_Constant(self, n, env):
        return n.value

    def e_Name(self, n, env):
        if n.id in env:
            return env[n.id]
        if n.id in self.funcs:
            return ("function", self.funcs[n.id], None)
        if n.id in ("len", "str", "float", "int", "datetime", "timezone", "Exception", "ValueError", "TypeError", "range", "chain", "list", "tuple"):
            return ("builtin", n.id)
        raise Unsupported(f"translator: unknown name {n.id} at line {n.lineno}")

    def e_Attribute(self, n, env):
        base = self.ev(n.value, env)
        if isinstance(base, PyObj):
            if n.attr in base.__dict__:
                return base.__dict__[n.attr]
            if n.attr in self.consts:
                return self.consts[n.attr]
            if n.attr in self.methods:
                defn, static = self.methods[n.attr]
                return ("function", defn, None if static else base)
            raise Unsupported(f"translator: attribute {n.attr} at line {n.lineno}")
        if base == ("builtin", "timezone") and n.attr == "utc":
            return "UTC"
        return ("method", base, n.attr)

    def e_IfExp(self, n, env):
        return self.ev(n.body, env) if self.truth(self.ev(n.test, env)) else self.ev(n.orelse, env)

    def e_BoolOp(self, n, env):
        v = None
        for sub in n.values:
            v = self.ev(sub, env)
            t = self.truth(v)
            if isinstance(n.op, ast.Or) and t:
                return v
            if isinstance(n.op, ast.And) and not t:
                return v
        return v

    def e_UnaryOp(self, n, env):
        v = self.ev(n.operand, env)
        if isinstance(n.op, ast.Not):
            return not self.truth(v)
        if isinstance(n.op, ast.USub) and isinstance(v, (int, lpe.SymInt)):
            return -v
        raise Unsupported(f"translator: unary {type(n.op).__name__} at line {n.lineno}")

    def e_JoinedStr(self, n, env):
        parts = []
        for v in n.values:
            if isinstance(v, ast.Constant):
                parts.append(v.value)
            else:
                if v.conversion != -1 or v.format_spec is not None:
                    raise Unsupported(f"translator: format spec at line {n.lineno}")
                parts.append(self.to_str(self.ev(v.value, env)))
        if all(isinstance(p, str) for p in parts):
            return "".join(parts)
        return ZS(z3.Concat(*[zs(p) for p in parts])) if len(parts) > 1 else parts[0]

    def to_str(self, v):
        if isinstance(v, (str, ZS)):
            return v
        if isinstance(v, FloatVal):
            return self.float_to_str(v)
        if type(v) in (float, int):
            return str(v)
        if isinstance(v, Time) and v.iso:
            return v
        raise Unsupported(f"translator: str() of {type(v).__name__}")

    def to_float(self, v):
        if isinstance(v, FloatVal):
            return v
        if isinstance(v, lpe.SymInt):
            name = str(v.e)
            return FloatVal(f"of_{name}", src=v)
        if type(v) in (int, float):
            return float(v)
        if isinstance(v, str):
            try:
                return float(v)
            except ValueError as e:
                raise PyRaise(e)
        if isinstance(v, ZS):
            hit = self.reprs.get(v.e.get_id())
            if hit is not None:
                return hit[0]  # CPython: float(repr(x)) == x
            raise Unsupported("translator: float() of an arbitrary symbolic string")
        raise Unsupported(f"translator: float() of {type(v).__name__}")

    def e_Compare(self, n, env):
        if len(n.ops) != 1:
            raise Unsupported(f"translator: chained comparison at line {n.lineno}")
        a = self.ev(n.left, env)
        b = self.ev(n.comparators[0], env)
        op = n.ops[0]
        if isinstance(op, ast.Is):
            return a is b
        if isinstance(op, ast.IsNot):
            return a is not b
        if isinstance(op, (ast.Eq, ast.NotEq)):
            if isinstance(a, ZS) or isinstance(b, ZS):
                if not isinstance(a, (str, ZS)) or not isinstance(b, (str, ZS)):
                    r = False
                else:
                    r = ZB(zs(a) == zs(b))
            elif isinstance(a, (Time, FloatVal)) or isinstance(b, (Time, FloatVal)):
                raise Unsupported(f"translator: == on abstract value at line {n.lineno}")
            else:
                r = a == b
            if isinstance(op, ast.NotEq):
                return ZB(z3.Not(r.e)) if isinstance(r, ZB) else (not r)
            return r
        if isinstance(op, (ast.Lt, ast.LtE, ast.Gt, ast.GtE)) and isinstance(a, int) and isinstance(b, int):
            return {ast.Lt: a < b, ast.LtE: a <= b, ast.Gt: a > b, ast.GtE: a >= b}[type(op)]
        raise Unsupported(f"translator: comparison {type(op).__name__} at line {n.lineno}")

    def e_BinOp(self, n, env):
        a, b = self.ev(n.left, env), self.ev(n.right, env)
        if isinstance(a, int) and isinstance(b, int):
            if isinstance(n.op, ast.Add):
                return a + b
            if isinstance(n.op, ast.Sub):
                return a - b
        if isinstance(n.op, ast.Add) and isinstance(a, (str, ZS)) and isinstance(b, (str, ZS)):
            if isinstance(a, str) and isinstance(b, str):
                return a + b
            return ZS(z3.Concat(zs(a), zs(b)))
        raise Unsupported(f"translator: binary {type(n.op).__name__} at line {n.lineno}")

    def e_Subscript(self, n, env):
        base = self.ev(n.value, env)
        if isinstance(n.slice, ast.Slice):
            if n.slice.step is not None:
                raise Unsupported(f"translator: slice step at line {n.lineno}")
            lo = self.ev(n.slice.lower, env) if n.slice.lower is not None else 0
            hi = self.ev(n.slice.upper, env) if n.slice.upper is not None else None
            if not isinstance(lo, int) or not (hi is None or isinstance(hi, int)) or lo < 0 or (hi is not None and hi < 0):
                raise Unsupported(f"translator: slice bounds at line {n.lineno}")
            if isinstance(base, (str, tuple, list)):
                return base[lo:hi]
            if isinstance(base, ZS):
                ln = z3.Length(base.e)
                if hi is None:
                    return ZS(z3.If(ln >= lo, z3.SubString(base.e, lo, ln - lo), z3.StringVal("")), origin=(base.e, lo))
                return ZS(z3.SubString(base.e, lo, hi - lo))  # z3 substr clamps like Python slicing
            raise Unsupported(f"translator: slice of {type(base).__name__} at line {n.lineno}")
        idx = self.ev(n.slice, env)
        if isinstance(base, (tuple, list)):
            if not isinstance(idx, int):
                raise Unsupported("translator: symbolic sequence index")
            try:
                return base[idx]
            except IndexError as e:
                raise PyRaise(e)
        if isinstance(base, str):
            try:
                return base[idx]
            except IndexError as e:
                raise PyRaise(e)
        if isinstance(base, ZS):
            if not isinstance(idx, int) or idx < 0:
                raise Unsupported("translator: string index")
            if not decide(z3.Length(base.e) > idx):
                raise PyRaise(IndexError("string index out of range"))
            return ZS(z3.SubString(base.e, idx, 1))
        raise Unsupported(f"translator: subscript of {type(base).__name__} at line {n.lineno}")

    def e_Dict(self, n, env):
        if n.keys:
            raise Unsupported("translator: dict literal with items")
        return AssocDict()

    def e_Tuple(self, n, env):
        out = []
        for el in n.elts:
            if isinstance(el, ast.Starred):
                out.extend(self.ev(el.value, env))
            else:
                out.append(self.ev(el, env))
        return tuple(out)

    e_List = e_Tuple

    def e_GeneratorExp(self, n, env):
        out = []

        def rec(gi, env2):
            if gi == len(n.generators):
                out.append(self.ev(n.elt, env2))
                return
            g = n.generators[gi]
            for item in self.iterate(self.ev(g.iter, env2)):
                env3 = dict(env2)
                self.bind(g.target, item, env3)
                if all(self.truth(self.ev(c, env3)) for c in g.ifs):
                    rec(gi + 1, env3)

        rec(0, env)
        return out

    e_ListComp = e_GeneratorExp

    def iterate(self, v):
        if isinstance(v, (list, tuple)):
            return list(v)
        raise Unsupported(f"translator: iteration over {type(v).__name__}")

    def bind(self, target, val, env):
        if isinstance(target, ast.Name):
            env[target.id] = val
        elif isinstance(target, ast.Tuple):
            for t, v in zip(target.elts, val):
                self.bind(t, v, env)
        else:
            raise Unsupported("translator: binding target")

    def e_Call(self, n, env):
        f = self.ev(n.func, env)
        args = [self.ev(a, env) for a in n.args]
        kw = {k.arg: self.ev(k.value, env) for k in n.keywords}
        if f == ("builtin", "len"):
            if isinstance(args[0], (tuple, list, str)):
                return len(args[0])
            if isinstance(args[0], AssocDict):
                return len(args[0].pairs)
            raise Unsupported("translator: len() of symbolic value")
        if isinstance(f, tuple) and f[0] == "function":
            return self.apply(f[1], args, kw, bound=f[2])
        if f == ("builtin", "range") and args and all(type(a) is int for a in args) and not kw:
            if len(range(*args)) > 64:
                raise Unsupported("translator: range longer than 64")
            return list(range(*args))
        if f == ("builtin", "chain") and not kw:
            out = []
            for a in args:
                out.extend(self.iterate(a))
            return out
        if f in (("builtin", "list"), ("builtin", "tuple")) and len(args) <= 1 and not kw:
            items = self.iterate(args[0]) if args else []
            return list(items) if f[1] == "list" else tuple(items)
        if f == ("builtin", "str"):
            return self.to_str(args[0])
        if f == ("builtin", "float"):
            return self.to_float(args[0])
        if f == ("builtin", "int"):
            if isinstance(args[0], str):
                try:
                    return int(args[0])
                except ValueError as e:
                    raise PyRaise(e)
            raise Unsupported("translator: int() of symbolic value")
        if isinstance(f, tuple) and f[0] == "method":
            _, base, name = f
            if base == ("builtin", "chain") and name == "from_iterable" and len(args) == 1 and not kw:
                out = []
                for a in self.iterate(args[0]):
                    out.extend(self.iterate(a))
                return out
            if isinstance(base, AssocDict) and name == "items":
                return list(base.pairs)
            if isinstance(base, AssocDict) and name == "keys":
                return [k for k, _ in base.pairs]
            if isinstance(base, AssocDict) and name == "values":
                return [v for _, v in base.pairs]
            if isinstance(base, Time) and name == "replace":
                if set(kw) != {"tzinfo"} or args:
                    raise Unsupported("translator: datetime.replace arguments")
                if kw["tzinfo"] is None:
                    return Time(base.tok, aware=False, iso=base.iso)
                if kw["tzinfo"] == "UTC":
                    return Time(base.tok, aware=True, iso=base.iso)
                raise Unsupported("translator: replace(tzinfo=?)")
            if isinstance(base, Time) and name == "isoformat" and not args and not kw:
                return Time(base.tok, aware=base.aware, iso=True)
            if base == ("builtin", "datetime") and name == "fromisoformat":
                t = args[0]
                if isinstance(t, Time) and t.iso:
                    return Time(t.tok, aware=t.aware, iso=False)
                raise Unsupported("translator: fromisoformat of a non-iso value")
            if name == "isdigit" and not args:
                if isinstance(base, str):
                    return base.isdigit()
                if isinstance(base, ZS):
                    # str.isdigit restricted to ASCII digits; only reached on repr(float) strings
                    if base.origin is not None:
                        # s[k:] in RE  <=>  len(s) >= k and s in (any char)^k . RE   - keeps the regex
                        # constraint on the original variable (automata intersection instead of substr)
                        e0, k = base.origin
                        anyk = z3.Concat(*([z3.AllChar(z3.ReSort(z3.StringSort()))] * k)) if k > 1 else z3.AllChar(z3.ReSort(z3.StringSort()))
                        return ZB(z3.And(z3.Length(e0) >= k, z3.InRe(e0, z3.Concat(anyk, DIGITS)))) if k > 0 else ZB(z3.InRe(e0, DIGITS))
                    return ZB(z3.InRe(base.e, DIGITS))
            if name == "startswith" and len(args) == 1 and isinstance(args[0], str):
                if isinstance(base, str):
                    return base.startswith(args[0])
                if isinstance(base, ZS):
                    return ZB(z3.PrefixOf(z3.StringVal(args[0]), base.e))
            raise Unsupported(f"translator: method {name} on {type(base).__name__}")
        raise Unsupported(f"translator: call at line {n.lineno}")

    # ---- statements
    def run(self, body, env):
        for st in body:
            self.nodes.add(type(st).__name__)
            m = getattr(self, "s_" + type(st).__name__, None)
            if m is None:
                raise Unsupported(f"translator: unsupported statement {type(st).__name__} at line {st.lineno}")
            m(st, env)

    def s_Expr(self, st, env):
        if isinstance(st.value, ast.Constant):
            return
        self.ev(st.value, env)

    def s_Pass(self, st, env):
        return

    def s_Assign(self, st, env):
        v = self.ev(st.value, env)
        for t in st.targets:
            self.assign(t, v, env)

    def s_AnnAssign(self, st, env):
        if st.value is not None:
            self.assign(st.target, self.ev(st.value, env), env)

    def s_AugAssign(self, st, env):
        cur = self.ev(st.target, env)
        v = self.ev(st.value, env)
        if isinstance(st.op, ast.Add) and isinstance(cur, int) and isinstance(v, int):
            self.assign(st.target, cur + v, env)
        else:
            raise Unsupported(f"translator: augmented assignment at line {st.lineno}")

    def assign(self, t, v, env):
        if isinstance(t, ast.Name):
            env[t.id] = v
        elif isinstance(t, ast.Attribute):
            self.ev(t.value, env).__dict__[t.attr] = v
        elif isinstance(t, ast.Subscript):
            d = self.ev(t.value, env)
            k = self.ev(t.slice, env)
            if not isinstance(d, AssocDict):
                raise Unsupported("translator: subscript store")
            for i, (k0, _) in enumerate(d.pairs):  # dict semantics: overwrite an equal key
                if self.keys_equal(k0, k):
                    d.pairs[i] = (k0, v)
                    return
            d.pairs.append((k, v))
        elif isinstance(t, ast.Tuple):
            for tt, vv in zip(t.elts, v):
                self.assign(tt, vv, env)
        else:
            raise Unsupported("translator: assignment target")

    def keys_equal(self, a, b):
        if isinstance(a, ZS) or isinstance(b, ZS):
            return decide(zs(a) == zs(b))
        return a == b

    def s_If(self, st, env):
        self.run(st.body if self.truth(self.ev(st.test, env)) else st.orelse, env)

    def s_While(self, st, env):
        n = 0
        while self.truth(self.ev(st.test, env)):
            n += 1
            if n > 64:
                raise Unsupported("translator: loop bound 64 exceeded")
            try:
                self.run(st.body, env)
            except BreakEx:
                break
            except ContinueEx:
                continue

    def s_For(self, st, env):
        for item in self.iterate(self.ev(st.iter, env)):
            self.bind(st.target, item, env)
            try:
                self.run(st.body, env)
            except BreakEx:
                break
            except ContinueEx:
                continue

    def s_Break(self, st, env):
        raise BreakEx()

    def s_Continue(self, st, env):
        raise ContinueEx()

    def s_Return(self, st, env):
        raise ReturnEx(self.ev(st.value, env) if st.value is not None else None)

    def s_Try(self, st, env):
        try:
            self.run(st.body, env)
        except PyRaise:
            if len(st.handlers) != 1 or st.finalbody or st.orelse:
                raise Unsupported("translator: try shape")
            self.run(st.handlers[0].body, env)

    def s_Raise(self, st, env):
        raise PyRaise(Exception("raise"))


def load(fn):
    src = textwrap.dedent(inspect.getsource(fn))
    return ast.parse(src).body[0]


def load_helpers(cls, exclude=()):
    """Module-level functions of cls's module and the other plain methods of cls, as ASTs, so that
    calls from the functions under analysis into them are inlined."""
    mod = inspect.getmodule(cls)
    tree = ast.parse(inspect.getsource(mod))
    funcs = {n.name: n for n in tree.body if isinstance(n, ast.FunctionDef)}
    methods = {}
    for n in tree.body:
        if isinstance(n, ast.ClassDef) and n.name == cls.__name__:
            for m in n.body:
                if isinstance(m, ast.FunctionDef) and m.name not in exclude:
                    decos = [d.id for d in m.decorator_list if isinstance(d, ast.Name)]
                    if any(d in ("property", "classmethod") for d in decos) or any(not isinstance(d, ast.Name) for d in m.decorator_list):
                        continue
                    methods[m.name] = (m, "staticmethod" in decos)
    return funcs, methods


def call(defn, interp, **args):
    env = dict(args)
    for a, d in zip(reversed(defn.args.args), reversed(defn.args.defaults)):
        env.setdefault(a.arg, ast.literal_eval(d))
    try:
        interp.run(defn.body, env)
    except ReturnEx as r:
        return r.v
    return None
