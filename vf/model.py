"""Reference model (oracle): ModelDB and query descriptors (QD).

Written from docs/source/*.rst and the property statements; shares no code with
tinyflux.  Uses only built-ins with documented semantics (sorted is stable, dict merge,
comprehensions).  All functions work on plain Python values and on lpe proxies alike:
boolean results may be SymBool, integer values may be SymInt.

A model point is MP(t, m, tags, fields): t = instant in microseconds since the epoch
(the point's time as an exact UTC instant), m = measurement string, tags: dict str ->
str|None, fields: dict str -> int|float|None.  A ModelDB is a list of MP in insertion
order.
"""
import datetime as _dt
import operator as _op
import re as _re

from . import lpe
from .lpe import SymBool

# ------------------------------------------------------------------ boolean helpers


def b_not(x):
    return ~x if isinstance(x, SymBool) else (not x)


def b_and(a, b):
    if isinstance(a, SymBool) or isinstance(b, SymBool):
        if a is False or b is False:
            return False
        if a is True:
            return b
        if b is True:
            return a
        return a & b
    return bool(a) and bool(b)


def b_or(a, b):
    if isinstance(a, SymBool) or isinstance(b, SymBool):
        if a is True or b is True:
            return True
        if a is False:
            return b
        if b is False:
            return a
        return a | b
    return bool(a) or bool(b)


def veq(a, b):
    """Value equality usable on None / str / numbers / proxies -> bool | SymBool."""
    if a is None or b is None:
        return a is None and b is None
    return a == b


class MP:
    __slots__ = ("t", "m", "tags", "fields")

    def __init__(self, t, m, tags=None, fields=None):
        self.t = t
        self.m = m
        self.tags = dict(tags or {})
        self.fields = dict(fields or {})

    def copy(self):
        return MP(self.t, self.m, self.tags, self.fields)

    def __repr__(self):
        return f"MP(t={self.t!r}, m={self.m!r}, tags={self.tags!r}, fields={self.fields!r})"


def mp_eq(a, b):
    """Content equality of two model points -> bool | SymBool."""
    if a.m != b.m or set(a.tags) != set(b.tags) or set(a.fields) != set(b.fields):
        return False
    r = veq(a.t, b.t)
    for k in a.tags:
        r = b_and(r, veq(a.tags[k], b.tags[k]))
    for k in a.fields:
        r = b_and(r, veq(a.fields[k], b.fields[k]))
    return r


# ------------------------------------------------------------------ user functions
# "user" callables that appear inside queries and updates.  They are inputs of the
# scenario (shared by the implementation run and the oracle), not part of either.

SEC = 1000000


def f_is_a(v):
    return v == "a"


def f_notnone(v):
    return v is not None


def f_upper(v):
    return v.upper()


def f_len(v):
    return len(v)


def f_neg(v):
    return -v


def f_pos(v, bound=0):
    return v is not None and v > bound


def f_plus1s(t):
    return t + _dt.timedelta(seconds=1)


def f_ntags(tags):
    return len(tags)


def f_keys(tags):
    return ",".join(sorted(tags))


def f_ident(d):
    return dict(d)


FUNCS = {
    f.__name__: f
    for f in (f_is_a, f_notnone, f_upper, f_len, f_neg, f_pos, f_plus1s, f_ntags, f_keys, f_ident)
}

OPS = {"==": _op.eq, "!=": _op.ne, "<": _op.lt, "<=": _op.le, ">": _op.gt, ">=": _op.ge}
OPNAMES = list(OPS)


def _cmp(op, v, rhs):
    """True iff the comparison is defined for (v, rhs) and holds."""
    try:
        return OPS[op](v, rhs)
    except TypeError:
        return False


# ------------------------------------------------------------------ query descriptors
# leaves
#   ("time", op, rhs_us)                      TimeQuery() op <aware UTC datetime>
#   ("time_test", fname, *args)               TimeQuery().test(f, *args)   f on instants (us)
#   ("time_map", fname, op, rhs_us)           TimeQuery().map(f) op rhs
#   ("meas", op, rhs) ("meas_re", kind, regex, flags) ("meas_test", fname) ("meas_map", fname, op, rhs)
#   ("tag", key, op, rhs) ("tag_exists", key) ("tag_re", key, kind, regex, flags)
#   ("tag_test", key, fname) ("tag_map", key, fname, op, rhs) ("tags_map", fname, op, rhs)
#   ("field", key, op, rhs) ("field_exists", key) ("field_test", key, fname, *args)
#   ("field_map", key, fname, op, rhs) ("fields_map", fname, op, rhs)
#   ("noop", kind)                            kind in time|meas|tag|field
# compounds: ("not", q) ("and", a, b) ("or", a, b)


def spec(q, p):
    """Documented meaning of query descriptor q on model point p -> bool | SymBool."""
    k = q[0]
    if k == "not":
        return b_not(spec(q[1], p))
    if k == "and":
        return b_and(spec(q[1], p), spec(q[2], p))
    if k == "or":
        return b_or(spec(q[1], p), spec(q[2], p))
    if k == "noop":
        return True
    if k == "time":
        return _cmp(q[1], p.t, q[2])
    if k == "time_test":
        # the user function is written over datetimes; on instants: "t >= bound"
        return _cmp(">=", p.t, q[2])
    if k == "time_map":
        # f_plus1s: compares (t + 1 s) with rhs
        assert q[1] == "f_plus1s"
        return _cmp(q[2], p.t + SEC, q[3])
    if k == "meas":
        return _cmp(q[1], p.m, q[2])
    if k == "meas_re":
        return _regex(q[1], q[2], q[3], p.m)
    if k == "meas_test":
        return _total(FUNCS[q[1]], p.m)
    if k == "meas_map":
        return _mapped(FUNCS[q[1]], p.m, q[2], q[3])
    if k in ("tag", "tag_exists", "tag_re", "tag_test", "tag_map"):
        if q[1] not in p.tags:
            return False
        v = p.tags[q[1]]
        if k == "tag":
            return _cmp(q[2], v, q[3])
        if k == "tag_exists":
            return True
        if k == "tag_re":
            return _regex(q[2], q[3], q[4], v)
        if k == "tag_test":
            return _total(FUNCS[q[2]], v)
        return _mapped(FUNCS[q[2]], v, q[3], q[4])
    if k == "tags_map":
        return _mapped(FUNCS[q[1]], p.tags, q[2], q[3])
    if k == "tags_mapkey":  # TagQuery().map(f)[key] op rhs
        try:
            v = FUNCS[q[1]](p.tags)[q[2]]
        except Exception:
            return False
        return _cmp(q[3], v, q[4])
    if k == "fields_map":  # FieldQuery().map(f) op rhs: f sees the whole field set (also an empty one)
        return _mapped(FUNCS[q[1]], p.fields, q[2], q[3])
    if k in ("field", "field_exists", "field_test", "field_map"):
        if q[1] not in p.fields:
            return False
        v = p.fields[q[1]]
        if k == "field":
            return _cmp(q[2], v, q[3])
        if k == "field_exists":
            return True
        if k == "field_test":
            return _total(FUNCS[q[2]], v, *q[3:])
        return _mapped(FUNCS[q[2]], v, q[3], q[4])
    raise ValueError(q)


def _regex(kind, regex, flags, v):
    if not isinstance(v, str):
        return False  # a regex cannot match a missing (None) value; not an error
    f = _re.match if kind == "matches" else _re.search
    return f(regex, v, flags) is not None


def _total(f, v, *args):
    """A user test function; the menus only contain functions total on their domain
    except for None inputs, where a raised TypeError means 'comparison undefined'."""
    try:
        return f(v, *args)
    except TypeError:
        return False


def _mapped(f, v, op, rhs):
    try:
        w = f(v)
    except Exception:
        return False  # path cannot be resolved -> the point does not match
    return _cmp(op, w, rhs)


def uses_time(q):
    k = q[0]
    if k in ("not",):
        return uses_time(q[1])
    if k in ("and", "or"):
        return uses_time(q[1]) or uses_time(q[2])
    return k.startswith("time")


def compile_q(q, mk_time):
    """Build the tinyflux query object for descriptor q (mk_time: us -> datetime)."""
    from tinyflux import FieldQuery, MeasurementQuery, TagQuery, TimeQuery

    k = q[0]
    if k == "not":
        return ~compile_q(q[1], mk_time)
    if k == "and":
        return compile_q(q[1], mk_time) & compile_q(q[2], mk_time)
    if k == "or":
        return compile_q(q[1], mk_time) | compile_q(q[2], mk_time)
    if k == "noop":
        return {"time": TimeQuery, "meas": MeasurementQuery, "tag": TagQuery, "field": FieldQuery}[
            q[1]
        ]().noop()
    if k == "time":
        return OPS[q[1]](TimeQuery(), mk_time(q[2]))
    if k == "time_test":
        bound = mk_time(q[2])
        return TimeQuery().test(_time_ge, bound)
    if k == "time_map":
        return OPS[q[2]](TimeQuery().map(FUNCS[q[1]]), mk_time(q[3]))
    if k == "meas":
        return OPS[q[1]](MeasurementQuery(), q[2])
    if k == "meas_re":
        return getattr(MeasurementQuery(), q[1])(q[2], q[3])
    if k == "meas_test":
        return MeasurementQuery().test(FUNCS[q[1]])
    if k == "meas_map":
        return OPS[q[2]](MeasurementQuery().map(FUNCS[q[1]]), q[3])
    if k == "tag":
        return OPS[q[2]](TagQuery()[q[1]], q[3])
    if k == "tag_exists":
        return TagQuery()[q[1]].exists()
    if k == "tag_re":
        return getattr(TagQuery()[q[1]], q[2])(q[3], q[4])
    if k == "tag_test":
        return TagQuery()[q[1]].test(FUNCS[q[2]])
    if k == "tag_map":
        return OPS[q[3]](TagQuery()[q[1]].map(FUNCS[q[2]]), q[4])
    if k == "tags_map":
        return OPS[q[2]](TagQuery().map(FUNCS[q[1]]), q[3])
    if k == "tags_mapkey":
        return OPS[q[3]](TagQuery().map(FUNCS[q[1]])[q[2]], q[4])
    if k == "fields_map":
        return OPS[q[2]](FieldQuery().map(FUNCS[q[1]]), q[3])
    if k == "field":
        return OPS[q[2]](FieldQuery()[q[1]], q[3])
    if k == "field_exists":
        return FieldQuery()[q[1]].exists()
    if k == "field_test":
        return FieldQuery()[q[1]].test(FUNCS[q[2]], *q[3:])
    if k == "field_map":
        return OPS[q[3]](FieldQuery()[q[1]].map(FUNCS[q[2]]), q[4])
    raise ValueError(q)


def _time_ge(t, b):
    """Test function of the ("time_test", "ge", x) leaf: one function object for every query built from it
    (a fresh lambda per query would hash by identity and make set layouts differ between re-executions)."""
    return t >= b


def q_repr(q):
    k = q[0]
    if k == "not":
        return f"~({q_repr(q[1])})"
    if k in ("and", "or"):
        return f"({q_repr(q[1])} {'&' if k == 'and' else '|'} {q_repr(q[2])})"
    return k + "(" + ",".join(repr(x) for x in q[1:]) + ")"


# ------------------------------------------------------------------ ModelDB


def truth(x):
    """Decide a possibly symbolic boolean (forks under lpe)."""
    return bool(x)


class ModelDB:
    def __init__(self):
        self.pts = []

    def copy(self):
        m = ModelDB()
        m.pts = [p.copy() for p in self.pts]
        return m

    # -- selection
    def _sel(self, q, measurement):
        """Predicate: point selected by query q under an optional measurement filter."""

        def pred(p):
            if measurement is not None and p.m != measurement:
                return False
            return spec(q, p) if q is not None else True

        return pred

    def matches(self, q, measurement=None):
        pred = self._sel(q, measurement)
        return [p for p in self.pts if truth(pred(p))]

    def search(self, q, measurement=None, sorted_=True):
        r = self.matches(q, measurement)
        if sorted_:
            r = sorted(r, key=lambda p: p.t)  # stable
        return r

    def get(self, q, measurement=None):
        pred = self._sel(q, measurement)
        for p in self.pts:
            if truth(pred(p)):
                return p
        return None

    def select(self, keys, q, measurement=None):
        single = isinstance(keys, str)
        ks = [keys] if single else list(keys)
        out = []
        for p in self.matches(q, measurement):
            row = []
            for k in ks:
                if k == "time":
                    row.append(("time", p.t))
                elif k == "measurement":
                    row.append(p.m)
                elif k.startswith("tags."):
                    row.append(p.tags.get(k[5:]))
                else:
                    row.append(p.fields.get(k[7:]))
            out.append(row[0] if len(ks) == 1 else tuple(row))
        return out

    # -- writes
    def insert(self, p):
        self.pts.append(p)

    def remove(self, q, measurement=None):
        pred = self._sel(q, measurement)
        keep, n = [], 0
        for p in self.pts:
            if truth(pred(p)):
                n += 1
            else:
                keep.append(p)
        self.pts = keep
        return n

    def remove_all(self):
        self.pts = []

    def update(self, q, measurement, change):
        """change(MP) -> new MP; returns the number of points whose content changed."""
        pred = self._sel(q, measurement)
        n = 0
        out = []
        for p in self.pts:
            if truth(pred(p)):
                new = change(p.copy())
                if not truth(mp_eq(new, p)):
                    n += 1
                out.append(new)
            else:
                out.append(p)
        self.pts = out
        return n

    # -- getters
    def measurements(self):
        return sorted({p.m for p in self.pts})

    def tag_keys(self, measurement=None):
        return sorted({k for p in self.pts if measurement is None or p.m == measurement for k in p.tags})

    def field_keys(self, measurement=None):
        return sorted(
            {k for p in self.pts if measurement is None or p.m == measurement for k in p.fields}
        )

    def tag_values(self, tag_keys=(), measurement=None):
        out = {k: set() for k in tag_keys}
        for p in self.pts:
            if measurement is not None and p.m != measurement:
                continue
            for k, v in p.tags.items():
                if tag_keys and k not in tag_keys:
                    continue
                out.setdefault(k, set()).add(v)
        return {k: sorted(v, key=lambda x: (x is None, x or "")) for k, v in out.items()}

    def field_values(self, key, measurement=None):
        return [
            p.fields[key]
            for p in self.pts
            if (measurement is None or p.m == measurement) and key in p.fields
        ]

    def timestamps(self, measurement=None):
        return [p.t for p in self.pts if measurement is None or p.m == measurement]


def make_change(time=None, measurement=None, tags=None, fields=None, unset_tags=(), unset_fields=()):
    """Documented update semantics: time and measurement replaced, tags/fields merged
    key-by-key, unset applied last.  time: us instant or callable(us)->us; measurement:
    str or callable; tags/fields: dict or callable(dict)->dict."""

    def change(p):
        if time is not None:
            p.t = time(p.t) if callable(time) else time
        if measurement is not None:
            p.m = measurement(p.m) if callable(measurement) else measurement
        if tags is not None:
            p.tags.update(tags(dict(p.tags)) if callable(tags) else tags)
        if fields is not None:
            p.fields.update(fields(dict(p.fields)) if callable(fields) else fields)
        for k in [unset_tags] if isinstance(unset_tags, str) else unset_tags:
            p.tags.pop(k, None)
        for k in [unset_fields] if isinstance(unset_fields, str) else unset_fields:
            p.fields.pop(k, None)
        return p

    return change
