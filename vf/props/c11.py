"""C11 - an operation that raises leaves the database as it was, and still usable."""
import datetime as _dt

from .. import lpe
from ..hist import SYM, apply_op, run_path, _target
from ..lpe import choose, fail, require, show
from ..model import q_repr
from ..symtime import mk_time
from . import histcommon as hc
from .c01 import A, A2, B, C, CONFIGS, OP, _split, _untuple, attrs, pspec

PROP = "C11"
FUNCTIONS_ENCODED = [
    "tinyflux.database.TinyFlux._insert_helper (per-point type check inside the loop)",
    "TinyFlux._generate_updater (argument validation, perform_update), _update_helper, temp_storage_op",
    "TinyFlux.search/remove/update/select argument checks",
    "tinyflux.point.Point setters (validation of callable results for time/measurement)",
    "index maintenance on the error paths; every later read/write (C01/C02 machinery)",
]
TRUSTED = hc.TRUSTED
ASSUMPTIONS = hc.COMMON_ASSUMPTIONS + [
    "faults: a non-Point at symbolic position j of insert_multiple (list of <= 3); an update callable (time / measurement / "
    "tags / fields) that raises ValueError, or returns an invalid value for time/measurement, on the i-th point it is "
    "called on (i symbolic); invalid static arguments of update/search/remove/insert/select",
    "after the failed call: contents == model (old contents; for insert_multiple plus the prefix), index invariant, then "
    "one write (insert or remove) and every read op behave as the model says",
    "bounds: 2-3 points before the failing call; both storages; auto_index on/off",
    "invalid values returned by tags=/fields= callables are the subject of C14, not of this check",
]
BOUNDS = {"points": 3}


class Boom(ValueError):
    pass


def _now():
    return (_dt.datetime.now(_dt.timezone.utc) - _dt.datetime(1970, 1, 1, tzinfo=_dt.timezone.utc)) // _dt.timedelta(microseconds=1)


def _expect_raise(fn, what, types=(ValueError, TypeError, ZeroDivisionError)):
    try:
        fn()
    except types as e:
        return e
    except Exception as e:
        fail(lambda: f"{what} raised {type(e).__name__}: {e} (expected one of {[t.__name__ for t in types]})")
    fail(lambda: f"{what} did not raise")


def h_fault(params):
    kind = params["kind"]
    used = hc.used_of(params) | {"tag"}
    cfg = hc.cfg_of(params)

    def body(h):
        from tinyflux import Point

        n = params.get("n", 2)
        for i in range(n):
            apply_op(h, ("ins", pspec(i, used, params.get("torder", "sym"), "sel")))
        if params.get("reindex_before"):
            apply_op(h, ("reindex",))
        db = _target(h, params.get("via"))
        if kind == "insert_multiple":
            m = params.get("m", 3)
            j = choose("j", m)
            pts, mps = [], []
            for i in range(m):
                if i == j:
                    pts.append(params.get("bad", "not a point"))
                else:
                    p, mp = h.mk_point(pspec(10 + i, used, params.get("torder", "sym"), "sel"))
                    pts.append(p)
                    mps.append(mp)
            _expect_raise(lambda: db.insert_multiple(iter(pts)), "insert_multiple with a non-Point", (TypeError,))
            for mp in mps[:j]:
                if params.get("via") is not None:
                    mp.m = params["via"]
                h.model.insert(mp)
        elif kind == "callable":
            slot = params["slot"]
            i = choose("i", n)  # the call number on which the callable misbehaves
            calls = [0]
            bad = params.get("bad", "raise")

            def cb(old):
                k = calls[0]
                calls[0] += 1
                if k == i:
                    if bad == "raise":
                        raise Boom("user callable failed")
                    if bad == "raise_other":
                        raise ZeroDivisionError("user callable failed differently")
                    return {"time": 12345, "measurement": 77}[slot]
                if slot == "time":
                    return old + _dt.timedelta(seconds=1)
                if slot == "measurement":
                    return old + "x"
                if slot == "tags":
                    return {"j": "new"}
                return {"g": 5}

            qd = h.q(_untuple(params["q"]))
            q = h.compile(qd)
            # the callable is called once per selected point, in storage order: it only
            # misbehaves if at least i+1 points are selected
            nsel = len(h.model.pts) if params.get("all") else len(h.model.matches(qd, params.get("via")))
            if nsel <= i:
                raise lpe.Infeasible()
            kw = {slot: cb}
            if params.get("extra"):
                # a static argument for an attribute that is applied BEFORE the failing callable's one (the updater
                # writes time, measurement, tags, fields in that order): the point on which the callable fails has
                # already been edited when it fails
                from ..symtime import mk_time as _mk

                kw.update({"measurement": {"time": _mk(2_000_000_000_000_000)}, "tags": {"measurement": "moved"}, "fields": {"tags": {"j": "static"}}}[slot])
            if params.get("all"):
                _expect_raise(lambda: db.update_all(**kw), f"update_all({slot}=callable that fails on call {i}{', with an earlier static argument' if params.get('extra') else ''})")
            else:
                _expect_raise(lambda: db.update(q, **kw), f"update({slot}=callable that fails on call {i}{', with an earlier static argument' if params.get('extra') else ''})")
        elif kind == "reinsert":
            # insert(point, measurement=<invalid>) must raise and must not have touched the caller's point:
            # inserting the very same object afterwards behaves like a first insert
            from ..hist import op_insert
            from .. import symtime as _st

            p0 = Point()  # no time: must be stamped with the time of the SUCCESSFUL insert
            p0.tags = {"k": "a"}
            bad_m = [5, ["m"], 2.5][choose("badm", 3)]
            how = params.get("how", "insert")
            if how == "insert":
                _expect_raise(lambda: db.insert(p0, measurement=bad_m), "insert with an invalid measurement argument")
            else:
                _expect_raise(lambda: db.insert_multiple([p0], measurement=bad_m), "insert_multiple with an invalid measurement argument")
            require(p0.time is None or True, lambda: "")
            h.check_contents("contents after the failed insert")
            k = _st.CLOCK.n
            lo = _now()
            try:
                r = db.insert(p0)
            except Exception as e:
                fail(lambda: f"re-inserting the point after the failed call raised {type(e).__name__}: {e}")
            hi = _now()
            if lpe.is_symbolic() and h.storage == "mem":
                t = _st.CLOCK.value(k)
            else:
                from ..symtime import us_of

                t = us_of(p0.time)
                require(lo <= t <= hi, lambda: f"re-inserted point carries the time {t} of the FAILED call, not of this insert [{lo},{hi}]")
            from ..model import MP

            h.model.insert(MP(t, "_default", {"k": "a"}, {}))
        elif kind == "static":
            which = params["which"]
            q = h.compile(("tag", "k", "==", "a"))
            calls = {
                "update_time_int": lambda: db.update(q, time=3),
                "update_meas_int": lambda: db.update(q, measurement=3),
                "update_tags_bad": lambda: db.update(q, tags={"k": 3}),
                "update_fields_bad": lambda: db.update(q, fields={"f": "x"}),
                "update_fields_bool": lambda: db.update(q, fields={"f": True}),
                "update_nothing": lambda: db.update(q),
                "update_unset_bad": lambda: db.update(q, unset_tags=[1]),
                "update_bad_query": lambda: db.update("k == a", tags={"k": "b"}),
                "update_all_bad": lambda: db.update_all(fields={"f": None, "g": "x"}),
                "insert_non_point": lambda: db.insert({"k": "a"}),
                "search_non_query": lambda: h.db.search("k == a"),
                "select_bad_key": lambda: h.db.select("tags", q),
                "select_non_iter": lambda: h.db.select(3, q),
            }
            _expect_raise(calls[which], which)
        # ---- the database is what it was, consistent, and still usable
        def file_ok(stage):
            if h.storage == "csv":  # what an independent reader of the file sees
                from .. import files

                pts, why = files.decode_file(h.path)
                require(pts is not None, lambda: f"{stage}: the file {why}")
                h.req_points(pts, h.model.pts, f"file contents {stage}")

        file_ok(f"after failed {kind}")
        h.check_contents(f"contents after failed {kind}")
        inv = h.check_inv(f"after failed {kind}")
        h.check_reads(h.q(("tag", "k", "==", "a")), None, what=f"read after failed {kind}")
        h.check_reads(h.q(("time", ">=", SYM)), None, what=f"time read after failed {kind}")
        nxt = params.get("next", "ins")
        if nxt == "ins":
            apply_op(h, ("ins", pspec(20, used, params.get("torder", "sym"), "sel")))
        elif nxt == "rm":
            apply_op(h, ("rm", ("tag", "k", "==", "a")))
        elif nxt == "upd":
            apply_op(h, ("upd", ("tag", "k", "==", "a"), {"fields": {"f": 1}}))
        file_ok(f"after {nxt} following the failed {kind}")
        h.check_contents(f"contents after {nxt} following the failed {kind}")
        h.check_inv(f"after {nxt} following the failed {kind}")
        h.check_reads(h.q(("time", "<", SYM)), None, what=f"read after {nxt} following the failed {kind}")
        if params.get("twin"):
            fail("reachability twin")

    run_path(cfg, body)


HARNESS = {"h_fault": h_fault}


def _ob(oid, budget=60, **p):
    return {"id": oid, "harness": "h_fault", "params": p, "budget_s": budget}


STATIC = [
    "update_time_int", "update_meas_int", "update_tags_bad", "update_fields_bad", "update_fields_bool", "update_nothing",
    "update_unset_bad", "update_bad_query", "update_all_bad", "insert_non_point", "search_non_query", "select_bad_key", "select_non_iter",
]


def obligations(tier):
    th = tier == "thorough"
    obs = []
    for cname, ai, rx in CONFIGS:
        for nxt in ("ins", "rm") + (("upd",) if th else ()):
            obs.append(_ob(f"insert_multiple/{cname}/then-{nxt}", kind="insert_multiple", ai=ai, reindex_before=rx, next=nxt, n=1 if not th else 2, m=3 if th else 2, torder="sym", budget=120 if not th else 600))
        obs.append(_ob(f"insert_multiple/handle/{cname}", kind="insert_multiple", ai=ai, reindex_before=rx, via="n", n=1, m=2, also=["meas"]))
        for slot in ("time", "measurement", "tags", "fields"):
            for bad in ("raise", "raise_other") + (("invalid",) if slot in ("time", "measurement") else ()):
                for q in (B, A2) if th else (B,):
                    obs.append(_ob(f"callable/{slot}/{bad}/{q_repr(q)}/{cname}", kind="callable", slot=slot, bad=bad, q=q, ai=ai, reindex_before=rx, n=3 if (th or cname != "scan") else 2, next="ins", torder="sym" if th else "ooo"))
                obs.append(_ob(f"callable-update_all/{slot}/{bad}/{cname}", kind="callable", slot=slot, bad=bad, q=B, all=True, ai=ai, reindex_before=rx, n=2, next="rm", torder="ooo"))
                if slot != "time":
                    obs.append(_ob(f"callable+static/{slot}/{bad}/{cname}", kind="callable", slot=slot, bad=bad, q=B, all=True, extra=True, ai=ai, reindex_before=rx, n=2, next="rm", torder="ooo"))
                    if bad == "raise":
                        obs.append(_ob(f"callable+static/{slot}/{bad}/query/{cname}", kind="callable", slot=slot, bad=bad, q=B, extra=True, ai=ai, reindex_before=rx, n=3 if cname != "scan" else 2, next="ins", torder="ooo"))
        for how in ("insert", "insert_multiple"):
            obs.append(_ob(f"reinsert-after-failed-insert/{how}/{cname}", kind="reinsert", how=how, ai=ai, reindex_before=rx, n=2, next="rm", torder="sym"))
        for which in STATIC:
            obs.append(_ob(f"static/{which}/{cname}", kind="static", which=which, ai=ai, reindex_before=rx, n=2, next="ins", torder="ooo"))
    for cname, ai, rx in CONFIGS[:2]:
        obs.append(_ob(f"csv/reinsert-after-failed-insert/{cname}", kind="reinsert", how="insert", ai=ai, storage="csv", n=1, next="ins", budget=120))
        obs.append(_ob(f"csv/insert_multiple/{cname}", kind="insert_multiple", ai=ai, storage="csv", n=1, m=2, next="ins", budget=120))
        for slot in ("time", "tags"):
            obs.append(_ob(f"csv/callable/{slot}/{cname}", kind="callable", slot=slot, bad="raise", q=B, ai=ai, storage="csv", n=2, next="rm", budget=120))
        obs.append(_ob(f"csv/static/update_fields_bad/{cname}", kind="static", which="update_fields_bad", ai=ai, storage="csv", n=2, next="ins", budget=120))
    obs.append(_ob("twin/insert_multiple", kind="insert_multiple", ai=True, n=1, m=2, twin=True))
    obs.append(_ob("twin/callable", kind="callable", slot="tags", bad="raise", q=B, ai=True, n=2, twin=True, torder="ooo"))
    return obs
