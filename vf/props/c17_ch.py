"""CrossHair harnesses for C17: symbolic string right-hand sides and regex flags."""
import operator
import re
from datetime import datetime, timezone
from typing import Optional

from tinyflux import MeasurementQuery, Point, TagQuery

from ..chdrv import cap

EXCLUDE = set()
PARAMS = {}
T0 = datetime(2020, 1, 1, tzinfo=timezone.utc)
OPS = [operator.eq, operator.ne]


def _str_rhs(r1, r2, o1, o2, v):
    q1 = OPS[o1](TagQuery().k, r1)
    q2 = OPS[o2](TagQuery().k, r2)
    p = Point(time=T0, tags={"k": v})
    if q1 == q2:
        return q1(p) == q2(p)
    return True


def h_str_rhs(r1: str, r2: str, o1: int, o2: int, v: Optional[str]) -> bool:
    """
    pre: 0 <= o1 < 2 and 0 <= o2 < 2
    pre: len(r1) <= 2 and len(r2) <= 2 and (v is None or len(v) <= 2)
    post: _
    """
    return cap(_str_rhs, r1, r2, o1, o2, v)


def _meas_rhs(r1, r2, o1, o2, v):
    q1, q2 = OPS[o1](MeasurementQuery(), r1), OPS[o2](MeasurementQuery(), r2)
    p = Point(time=T0, measurement=v)
    if q1 == q2:
        return q1(p) == q2(p)
    return True


def h_meas_rhs(r1: str, r2: str, o1: int, o2: int, v: str) -> bool:
    """
    pre: 0 <= o1 < 2 and 0 <= o2 < 2
    pre: len(r1) <= 2 and len(r2) <= 2 and len(v) <= 2
    post: _
    """
    return cap(_meas_rhs, r1, r2, o1, o2, v)


FLAGS = [0, re.I, re.S]


def _regex_flags(f1, f2, kind1, kind2, v):
    mk = lambda kind, fl: (TagQuery().k.matches("a.?", fl) if kind else TagQuery().k.search("a.?", fl))
    q1, q2 = mk(kind1, FLAGS[f1]), mk(kind2, FLAGS[f2])
    p = Point(time=T0, tags={"k": v})
    if q1 == q2:
        return q1(p) == q2(p) and hash(q1) == hash(q2)
    return True


def h_regex_flags(f1: int, f2: int, kind1: bool, kind2: bool, v: str) -> bool:
    """
    pre: 0 <= f1 < 3 and 0 <= f2 < 3
    pre: len(v) <= 2
    post: _
    """
    return cap(_regex_flags, f1, f2, kind1, kind2, v)
