"""CrossHair harnesses for C09: genuinely symbolic strings in tag / measurement slots."""
import operator
import re
from datetime import datetime, timezone
from typing import Optional

from tinyflux import FieldQuery, MeasurementQuery, Point, TagQuery

from ..chdrv import cap

EXCLUDE = set()
PARAMS = {}
T0 = datetime(2020, 1, 1, tzinfo=timezone.utc)
OPS = [operator.eq, operator.ne, operator.lt, operator.le, operator.gt, operator.ge]


def _cmp(op, v, rhs):
    try:
        return OPS[op](v, rhs)
    except TypeError:
        return False


def _tag_cmp(present, v, rhs, op, neg):
    q = OPS[op](TagQuery().k, rhs)
    p = Point(time=T0, tags={"k": v} if present else {})
    exp = present and _cmp(op, v, rhs)
    if neg:
        return (~q)(p) == (not exp) and (~~q)(p) == exp
    return q(p) == exp


def h_tag_cmp(present: bool, v: Optional[str], rhs: Optional[str], op: int, neg: bool) -> bool:
    """
    pre: 0 <= op and (op < 2 or (op < 6 and (v is None or rhs is None)))
    pre: v is None or len(v) <= 4
    pre: rhs is None or len(rhs) <= 4
    post: _
    """
    return cap(_tag_cmp, present, v, rhs, op, neg)


def _meas_cmp(m, rhs, op, neg):
    q = OPS[op](MeasurementQuery(), rhs)
    p = Point(time=T0, measurement=m)
    exp = _cmp(op, m, rhs)
    if neg:
        return (~q)(p) == (not exp)
    return q(p) == exp


def h_meas_cmp(m: str, rhs: str, op: int, neg: bool) -> bool:
    """
    pre: 0 <= op < 2
    pre: len(m) <= 4 and len(rhs) <= 4
    post: _
    """
    return cap(_meas_cmp, m, rhs, op, neg)


REGEXES = [("a|", 0), ("B", re.I), ("^a.$", re.S), ("[ab]+", 0)]


def _tag_regex(present, v, which, kind):
    rx, fl = REGEXES[which]
    q = TagQuery().k.matches(rx, fl) if kind else TagQuery().k.search(rx, fl)
    p = Point(time=T0, tags={"k": v} if present else {})
    if not present or v is None:
        exp = False
    else:
        exp = ((re.match if kind else re.search)(rx, v, fl)) is not None
    return q(p) == exp


def h_tag_regex(present: bool, v: Optional[str], which: int, kind: bool) -> bool:
    """
    pre: 0 <= which < 4
    pre: v is None or len(v) <= 2
    post: _
    """
    return cap(_tag_regex, present, v, which, kind)


def _tag_and_field(tv, trhs, fv, frhs, op2, conj):
    a = TagQuery().k == trhs
    b = OPS[op2](FieldQuery().f, frhs)
    p = Point(time=T0, tags={"k": tv}, fields={"f": fv})
    ea = _cmp(0, tv, trhs)
    eb = _cmp(op2, fv, frhs)
    if conj:
        return (a & b)(p) == (ea and eb) and (b & a)(p) == (ea and eb)
    return (a | b)(p) == (ea or eb) and (~(a | b))(p) == (not (ea or eb))


def h_tag_and_field(tv: Optional[str], trhs: str, fv: Optional[int], frhs: int, op2: int, conj: bool) -> bool:
    """
    pre: 0 <= op2 < 6
    pre: (tv is None or len(tv) <= 2) and len(trhs) <= 2
    post: _
    """
    return cap(_tag_and_field, tv, trhs, fv, frhs, op2, conj)


def _field_cmp(present, v, rhs, op):
    q = OPS[op](FieldQuery().f, rhs)
    p = Point(time=T0, fields={"f": v} if present else {})
    return q(p) == (present and _cmp(op, v, rhs))


def h_field_cmp(present: bool, v: Optional[int], rhs: int, op: int) -> bool:
    """
    pre: 0 <= op < 6
    post: _
    """
    return cap(_field_cmp, present, v, rhs, op)


def _false(present, v, rhs, op):
    _field_cmp(present, v, rhs, op)
    return False


def h_twin(present: bool, v: Optional[int], rhs: int, op: int) -> bool:
    """
    pre: 0 <= op < 6
    post: _
    """
    return cap(_false, present, v, rhs, op)
