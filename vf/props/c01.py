"""C01 - query results equal exactly the stored points that satisfy the query."""
import re

from .. import lpe
from ..hist import SYM, apply_op, run_path
from ..model import q_repr

PROP = "C01"
FUNCTIONS_ENCODED = [
    "tinyflux.database.TinyFlux.search/count/contains/get/select/insert/insert_multiple/remove/remove_all/"
    "drop_measurement/update/reindex/_insert_helper/_remove_helper/_update_helper/_reset_database",
    "tinyflux.index.Index.search/_search_helper/_search_timestamps/_search_tags/_search_fields/"
    "_search_measurement/build/insert/remove/update/_reset/invalidate",
    "tinyflux.index.IndexResult.__and__/__or__/__invert__",
    "tinyflux.queries.BaseQuery.*/SimpleQuery.__call__/CompoundQuery.__call__",
    "tinyflux.utils.find_eq/find_lt/find_le/find_gt/find_ge",
    "tinyflux.storages.MemoryStorage.* and CSVStorage read/append/rewrite paths",
    "tinyflux.point.Point (constructor, setters, __eq__, CSV codec in the csv configuration)",
]
TRUSTED = [
    "z3 (feasibility of every branch, negated assertions)",
    "vf.lpe proxies and decision-tree search (cross-checked against CrossHair on shared harnesses, see C18/C09)",
    "vf.symtime SymTime/Stamp stub (differentially validated against datetime on every run)",
    "vf.model ModelDB/spec (written from the documentation)",
]
ASSUMPTIONS = [
    "stub: the name `datetime` inside tinyflux.* is rebound to vf.symtime.SymTime for memory-storage obligations; "
    "float seconds are treated as exact rationals (lemma L-float-us, discharged in C08)",
    "bounds: <=3 points before the operation under test (4 in thorough lean shapes); histories of depth <=5; "
    "times symbolic ints in 1700..2240 (any order, ties); field values unbounded ints, None or absent; tag values "
    "from the finite alphabet {absent, None, '', 'a', 'b'}; measurements from {'m','n'}; regexes and user "
    "test/map functions from fixed menus",
    "relevance cut: an obligation makes symbolic only the attribute kinds its query reads; the others are fixed",
    "csv configuration: same harness on real files, times from 4 instants 0.5 s apart, field values in -1..1",
    "outside the claim: larger databases, deeper histories, strings outside the alphabets, float field values, "
    "naive/non-UTC comparison values (C08)",
]
BOUNDS = {
    "quick": {"points": 3, "history_depth": 5, "ints": "unbounded", "times": "1700..2240 us"},
    "thorough": {"points": "3-4", "history_depth": 6, "ints": "unbounded", "times": "1700..2240 us"},
}

# ------------------------------------------------------------------ vocabulary
OP = "<op>"
L_TIME = [
    ("time", OP, SYM),
    ("time_test", "ge", SYM),
    ("time_map", "f_plus1s", OP, SYM),
    ("noop", "time"),
]
L_MEAS = [
    ("meas", OP, SYM),
    ("meas_re", "matches", "m|zz", 0),
    ("meas_re", "search", "^N", re.I),
    ("meas_test", "f_is_a"),
    ("meas_map", "f_upper", "==", "M"),
    ("noop", "meas"),
]
L_TAG = [
    ("tags_mapkey", "f_ident", "k", "==", SYM),
    ("tag", "k", OP, SYM),
    ("tag_exists", "k"),
    ("tag_re", "k", "matches", "a|", 0),
    ("tag_re", "k", "search", "B", re.I),
    ("tag_test", "k", "f_is_a"),
    ("tag_map", "k", "f_upper", "==", "A"),
    ("tags_map", "f_keys", "!=", "k"),  # true on a point without tags: the function sees the empty set
    ("noop", "tag"),
]
L_FIELD = [
    ("field", "f", OP, SYM),
    ("field_exists", "f"),
    ("field_test", "f", "f_pos", 0),
    ("field_map", "f", "f_neg", OP, SYM),
    ("fields_map", "f_ntags", OP, SYM),  # len(fields) compared with a number; 0 for a point without fields
    ("noop", "field"),
]
A = ("time", ">=", SYM)
A2 = ("time", "<", SYM)
B = ("tag", "k", "==", "a")
B2 = ("tag", "k", "!=", "a")
C = ("field", "f", "<", SYM)
D = ("field_exists", "f")
M = ("meas", "==", "m")
COMPOUNDS = [
    ("not", A),
    ("not", B),
    ("not", C),
    ("not", D),
    ("not", M),
    ("not", ("not", C)),
    ("and", A, B),
    ("or", A, B),
    ("and", B, C),
    ("or", B, C),
    ("and", A, A2),
    ("or", A2, C),
    ("not", ("and", A, B)),
    ("and", ("not", C), B),
    ("and", A, ("or", B, C)),
    ("or", ("not", D), M),
    ("and", M, ("not", B2)),
    # the same with the operands swapped: a sub-query the index cannot answer exactly on either side
    ("and", B, ("not", C)),
    ("or", M, ("not", D)),
    ("and", B, ("field_map", "f", "f_neg", "<", SYM)),
    ("or", ("field_map", "f", "f_neg", "<", SYM), B),
    ("and", B, ("noop", "field")),
    ("and", ("tags_mapkey", "f_ident", "k", "==", "a"), ("field_exists", "f")),
    ("and", ("field_exists", "f"), ("tags_mapkey", "f_ident", "k", "==", "a")),
]


def attrs(q):
    k = q[0]
    if k == "not":
        return attrs(q[1])
    if k in ("and", "or"):
        return attrs(q[1]) | attrs(q[2])
    if k == "noop":
        return {q[1]}
    return {{"tags": "tag", "fields": "field"}.get(k.split("_")[0], k.split("_")[0])}


FIXED_TAGS = [{"k": "a"}, {}, {"k": None}, {"k": "b"}]
FIXED_FIELDS = [{"f": 1}, {}, {"f": None}, {"f": -2}]


TAG_ALPHAS = {"full": SYM, "small": ("absent", "a", "b"), "sel": ("a", "b"), "none": ("absent", None, "a"), "cr": ("a\rb", "c\r\nd", "a")}


def pspec(i, used, torder, alpha="full"):
    """Point spec #i: symbolic in the attribute kinds in `used`, fixed otherwise."""
    s = {}
    if torder == "sym":
        s["time"] = SYM
    elif torder == "inc":
        s["time"] = 1_000_000_000_000_000 + i * 1_000_000
    else:  # out of order, with a tie
        s["time"] = 1_000_000_000_000_000 + [2, 0, 2, 1][i % 4] * 1_000_000
    s["meas"] = SYM if "meas" in used else ["m", "n", "m", "n"][i % 4]
    s["tags"] = {"k": TAG_ALPHAS[alpha]} if "tag" in used else dict(FIXED_TAGS[i % 4])
    s["fields"] = {"f": "opt"} if "field" in used else dict(FIXED_FIELDS[i % 4])
    if i % 2 == 0:  # keys that contain a dot (select("tags.d.t") must address the key "d.t")
        s["tags"]["d.t"] = "dot%d" % i
        s["fields"]["d.f"] = i
    return s


SCENARIOS = {
    # name: (n_prefix_points, ops after the prefix)
    "ins": (3, []),
    "insm": (0, [("insm", "P3")]),
    "rm": (3, [("rm", ("tag", "k", "==", "a"))]),
    "rm_time": (3, [("rm", ("time", "<", SYM))]),
    "upd": (3, [("upd", ("tag", "k", "==", "a"), {"fields": {"f": SYM}})]),
    "upd_time": (3, [("upd", ("field_exists", "f"), {"time": ("static", SYM)})]),
    "rmall_ins": (2, [("rmall",), ("ins", "P")]),
    "drop": (3, [("drop", "n")]),
    "rm_ins": (3, [("rm", ("tag", "k", "==", "a")), ("ins", "P")]),
    "read_ins": (2, [("read", ("time", ">=", SYM)), ("ins", "P")]),
}


def h_hist(params):
    """Generic C01 obligation: prefix inserts, scenario ops, then every read op."""
    qd0 = _untuple(params["q"])
    used = attrs(qd0) | set(params.get("also", []))
    if params.get("mfilter") is not None:
        used = used | {"meas"}
    scen = params["scenario"]
    n, ops = SCENARIOS[scen]
    n = params.get("n", n)
    torder = params.get("torder", "sym")
    if scen in ("rm", "upd", "rm_ins"):
        used = used | {"tag"}
    if scen == "upd_time":
        used = used | {"field"}
    if scen == "drop":
        used = used | {"meas"}
    cfg = {"storage": params.get("storage", "mem"), "auto_index": params.get("ai", True), "csv_times": params.get("csv_times", 3), "floats": params.get("floats", False), "meas_alpha": params.get("meas_alpha")}
    alpha = params.get("alpha", "full")

    def body(h):
        cnt = 0
        for i in range(n):
            apply_op(h, ("ins", pspec(i, used, torder, alpha)))
            cnt += 1
        if params.get("reindex_pre"):  # the scenario's operations run on a manually built, valid index
            apply_op(h, ("reindex",))
        for op in ops:
            if op[0] == "ins":
                op = ("ins", pspec(cnt, used, torder, alpha))
                cnt += 1
            elif op[0] == "insm":
                op = ("insm", [pspec(j, used, torder, alpha) for j in range(3)])
                cnt += 3
            apply_op(h, op)
        if params.get("reindex"):
            apply_op(h, ("reindex",))
        if params.get("reopen"):
            apply_op(h, ("reopen",))
        h.check_contents("contents before reads")
        # an index that is valid but differs from a rebuild would answer SOME query wrongly
        h.check_inv("before reads")
        qd = h.q(qd0)
        h.check_reads(qd, params.get("mfilter"), select_keys=("time", "measurement", "tags.k", "fields.f", "tags.d.t", "fields.d.f"))
        if params.get("twin"):
            lpe.fail("reachability twin")

    run_path(cfg, body)


def h_wide(params):
    """10 points at fixed increasing times; tag k in {a,b} per point by boolean selector (which
    positions match); one operation on the matching set, then reads.  Covers position-dependent
    behaviour (first/last/adjacent/sparse positions, positions >= 8)."""
    from ..hist import run_path as _rp

    n = params.get("n", 10)
    kind = params["kind"]
    cfg = {"storage": params.get("storage", "mem"), "auto_index": params.get("ai", True), "stub": False}

    def body(h):
        sel = [lpe.sym_bool(f"a{i}") for i in range(n)]
        for i in range(n):
            apply_op(h, ("ins", {"time": 1_000_000_000_000_000 + i * 1_000_000, "meas": "mn"[i % 2] if params.get("two_meas") else "m", "tags": {"k": "a" if sel[i] else "b"}, "fields": {"f": i}}))
        if params.get("reindex_pre"):
            apply_op(h, ("reindex",))
        qa = ("tag", "k", "==", "a")
        if kind == "rm":
            apply_op(h, ("rm", qa, params.get("mfilter")))
        elif kind == "upd":
            apply_op(h, ("upd", qa, {"fields": {"g": 1}}, params.get("mfilter")))
        elif kind == "upd_tags":
            apply_op(h, ("upd", ("field", "f", ">=", 5), {"tags": {"k": "a"}}))
        h.check_contents(f"contents after {kind}")
        h.check_inv(f"after {kind}")
        h.check_reads(qa, params.get("mfilter"), what=f"reads after {kind}")
        h.check_reads(("time", ">=", 1_000_000_000_000_000 + 4 * 1_000_000), None, what=f"time read after {kind}")
        if params.get("twin"):
            lpe.fail("reachability twin")

    _rp(cfg, body)


def _untuple(x):
    if isinstance(x, list):
        return tuple(_untuple(i) for i in x)
    return x


def _h_inv(params):
    from . import histcommon as _hc

    return _hc.h_inv(params)


HARNESS = {"h_hist": h_hist, "h_wide": h_wide, "h_inv": _h_inv}


def _ob(oid, q, scenario, ai, reindex=False, storage="mem", budget=60, presets=None, **kw):
    p = {"q": q, "scenario": scenario, "ai": ai, "reindex": reindex, "storage": storage}
    p.update(kw)
    return {"id": oid, "harness": "h_hist", "params": p, "budget_s": budget, "presets": presets or {}}


def _has_op(q):
    return any(_has_op(x) if isinstance(x, tuple) else x == OP for x in q)


def _split(obs):
    """Split obligations whose query has a symbolic operator into one per operator."""
    out = []
    for ob in obs:
        sq = (ob["params"].get("q") or ()), (ob["params"].get("read") or ()), (ob["params"].get("final_q") or ())
        if ob["params"].get("split_op") and _has_op(sq):
            from ..model import OPNAMES

            for i, nm in enumerate(OPNAMES):
                o = dict(ob, id=f"{ob['id']}/op{nm}", presets=dict(ob["presets"], op0=i))
                out.append(o)
        else:
            out.append(ob)
    return out


CONFIGS = [("ai", True, False), ("scan", False, False), ("manual", False, True)]


def obligations(tier):
    obs = []
    thorough = tier == "thorough"
    leaves = L_TIME + L_MEAS + L_TAG + L_FIELD
    for q in leaves:
        for cname, ai, rx in CONFIGS:
            torder = "sym" if "time" in attrs(q) else None
            for to in [torder] if torder else ["inc", "ooo"]:
                obs.append(_ob(f"leaf/{q_repr(q)}/{cname}/{to}", q, "ins", ai, rx, torder=to))
    # float-typed field values (quarters k/4) next to ints, on both sides of the comparison
    for q in L_FIELD + [("not", C), ("and", B, C), ("or", ("not", D), C)]:
        for cname, ai, rx in CONFIGS:
            obs.append(_ob(f"floats/{q_repr(q)}/{cname}", q, "ins", ai, rx, torder="ooo", floats=True, n=2 if not thorough else 3, alpha="sel", split_op=True))
    for q in COMPOUNDS:
        for cname, ai, rx in CONFIGS:
            to = "sym" if "time" in attrs(q) else "ooo"
            big = len(attrs(q)) >= 2
            obs.append(
                _ob(f"compound/{q_repr(q)}/{cname}/{to}", q, "ins", ai, rx, torder=to, n=2 if len(attrs(q)) >= 3 and not thorough else 3, alpha=("small" if thorough and big else "full") if thorough or not big else ("sel" if len(attrs(q)) >= 3 else "small"), budget=300 if thorough else 60)
            )
    reps = [("time", OP, SYM), B, C, ("and", A, ("or", B, C)), ("noop", "tag")]
    for scen in SCENARIOS:
        if scen == "ins":
            continue
        for q in reps[:4] if thorough else reps[:3]:
            for cname, ai, rx in CONFIGS if thorough else CONFIGS[:1]:
                tsym = "time" in attrs(q) or scen in ("rm_time", "upd_time")
                for to in ["sym"] if tsym else (["inc", "ooo"] if thorough else ["ooo"]):
                    obs.append(
                        _ob(f"hist/{scen}/{q_repr(q)}/{cname}/{to}", q, scen, ai, rx, torder=to, alpha="small" if (thorough and q == B) else "sel", budget=300 if thorough else 60, split_op=True)
                    )
    # multi-operation histories [X, Y] followed by every read op with a varied final query / filter / handle
    from . import histcommon as _hc

    xs = ["ins", "insm", "rm_tag", "rm_time", "upd", "upd_tags", "upd_time", "upd_meas", "drop", "rmall", "ins_notime", "reindex", "read"]
    finals = [
        {"final_q": ("time", OP, SYM)},
        {"final_q": ("tag", "k", "==", "a"), "final_mfilter": "m"},
        {"final_q": ("and", ("time", ">=", SYM), ("tag", "k", "==", "a"))},
        {"final_q": ("tag", "k", "!=", "zz"), "final_via": "n"},
    ]
    seq = []
    for x in xs:
        for y in xs:
            if x in ("reindex", "read") and y in ("reindex", "read"):
                continue
            for fi, fin in enumerate(finals):
                for ai in (True, False):
                    ops = [_hc.OPLIB[o] for o in ("ins", "ins", x, y)]
                    meas = "drop" in (x, y) or "upd_meas" in (x, y) or fi in (1, 3)
                    seq.append({"id": f"seq/{'ai' if ai else 'noai'}/ins,ins,{x},{y}/final{fi}", "harness": "h_inv", "params": dict({"ops": ops, "ai": ai, "alpha": "sel", "also": ["tag", "meas"] if meas else ["tag"], "torder": _hc.seq_torder(("ins", "ins", x, y)), "split_op": True}, **fin), "budget_s": 120 if not thorough else 600, "presets": {}})
    # the whole family is 1320 histories (about 0.7 s each on 16 cores): an evenly spaced slice per tier
    obs.extend(_hc.thin(seq, 360 if thorough else 44))
    # wide databases: 10 points, every subset of matching positions
    for kind in ("read", "rm", "upd"):
        for cname, ai, rx in CONFIGS[:2] + [("manual-pre", False, False)]:
            obs.append({"id": f"wide/{kind}/{cname}", "harness": "h_wide", "params": {"kind": kind, "ai": ai, "reindex_pre": cname == "manual-pre", "n": 10 if thorough else 9}, "budget_s": 120 if not thorough else 600, "presets": {}})
    # one measurement name a prefix of the other
    for q in (B, ("not", C), ("noop", "tag")):
        for mf in ("m", "mm"):
            for cname, ai, rx in CONFIGS[:2]:
                obs.append(_ob(f"mfilter-prefix/{mf}/{q_repr(q)}/{cname}", q, "ins", ai, rx, mfilter=mf, torder="ooo", alpha="sel", meas_alpha=["m", "mm"], also=["meas"]))
    # operations executed on a manually built valid index (auto_index off, reindex BEFORE the operation)
    for scen in ("rm", "rm_time", "upd", "rm_ins", "drop"):
        for q in (B, ("time", ">=", SYM)):
            obs.append(_ob(f"hist-manual-pre/{scen}/{q_repr(q)}", q, scen, False, False, reindex_pre=True, torder="sym", alpha="sel"))
    # measurement filter after index maintenance (remove / drop / update renumber positions)
    for scen in ("rm", "rm_ins", "drop", "upd", "rm_time"):
        for mf in ("m", "n"):
            for q in (B, ("meas", "!=", "zz")):
                obs.append(_ob(f"hist-mfilter/{scen}/{mf}/{q_repr(q)}/ai", q, scen, True, False, mfilter=mf, torder="sym" if scen == "rm_time" else "ooo", alpha="sel", also=["meas"]))
    # measurement filter: present / other / absent names
    for mf in ("m", "n", "zz"):
        for q in (A, B, ("not", C), ("meas", "==", "m")):
            for cname, ai, rx in CONFIGS:
                to = "sym" if "time" in attrs(q) else "ooo"
                obs.append(_ob(f"mfilter/{mf}/{q_repr(q)}/{cname}", q, "ins", ai, rx, mfilter=mf, torder=to, alpha="small"))
    # csv configuration (real files, concrete small domains)
    csv_q = [("time", OP, SYM), B, ("and", ("not", C), B)] + ([C, ("tag", "k", OP, SYM), D, ("or", A2, C)] if thorough else [])
    for q in csv_q:
        for cname, ai, rx in CONFIGS:
            for scen in ("ins", "rm", "upd") + (("rmall_ins", "drop", "rm_ins") if thorough else ()):
                if not thorough and scen != "ins" and cname != "ai":
                    continue
                obs.append(
                    # three points (real files: ~200 s of CPU per obligation) only for the plain insert history with the index on
                    _ob(f"csv/{scen}/{q_repr(q)}/{cname}", q, scen, ai, rx, storage="csv", n=3 if (thorough and scen == "ins" and cname == "ai") else 2, torder="sym", reopen=(cname == "scan"), alpha="small" if thorough else "sel", budget=600 if thorough else 90, split_op=True)
                )
    if thorough:
        for q in L_TIME + [("tag", "k", OP, SYM), ("field", "f", OP, SYM), ("and", A, B), ("or", A2, C), ("not", ("and", A, B))]:
            obs.append(_ob(f"n4/{q_repr(q)}", q, "ins", True, False, n=4, torder="sym", alpha="sel", budget=600, split_op=True))
    # reachability twins: one per scenario family
    for scen in ("ins", "rm", "upd", "rmall_ins"):
        obs.append(_ob(f"twin/{scen}", A, scen, True, False, twin=True, alpha="sel"))
    obs.append(_ob("twin/csv", B, "ins", True, False, storage="csv", n=2, twin=True, alpha="sel"))
    return _split(obs)
