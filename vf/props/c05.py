"""C05 - every valid Point survives serialization to CSV and back unchanged.

Family "codec" (E2, vf/pysym.py): the SOURCE of Point._serialize_to_list and
Point._deserialize_from_list is interpreted symbolically; measurement, every tag key,
tag value and field key are z3 strings of UNBOUNDED length, tag values may be None,
field values are None | abstract double | symbolic integer, the time is an opaque UTC
instant.  Per row shape (n_tags x n_fields x prefix style) the round trip
decode(encode(p)) == p is asserted on every path and negated: unsat == holds for all
strings of any length.  Injectivity (distinct points never decode alike) is a corollary
of the round trip on the same domain.
Family "csv" (real C csv module, cannot be encoded): strings of length <= 2 (thorough 3)
over a 12-character alphabet in each string slot, through a real CSVStorage file and a
reopen, for four dialects - solver-driven enumeration, stated as such.
Lemmas (E3): L-int-float, L-repr-lang; preflight: translator validation (the interpreter
on concrete points must return exactly what CPython returns) and the CPython facts the
abstract values assume (float(repr(x)) == x, fromisoformat(isoformat(t)) == t).
"""
import csv
import datetime as _dt
import itertools
import math
import os
import random

import z3

from .. import lemmas, lpe, pysym
from ..hist import run_path
from ..lpe import SymBool, assume, choose, fail, require, show, sym_bool, sym_int
from ..pysym import ZS, AssocDict, FloatVal, Interp, PyObj, Time, zs

PROP = "C05"
FUNCTIONS_ENCODED = [
    "tinyflux.point.Point._serialize_to_list (source interpreted: AST -> z3)",
    "tinyflux.point.Point._deserialize_from_list (source interpreted: AST -> z3)",
    "tinyflux.storages.CSVStorage.append/__iter__/_serialize_point/_deserialize_storage_item + C csv writer/reader (executed, csv family)",
]
TRUSTED = [
    "z3 string and regex theories (sequence solver)",
    "vf.pysym translator (validated against CPython on concrete points every run)",
    "CPython facts assumed for abstract values: float(repr(x)) == x for non-NaN doubles; datetime.fromisoformat(t.isoformat()) == t; "
    "both sampled in the preflight",
    "lemmas L-int-float, L-repr-lang (z3)",
]
ASSUMPTIONS = [
    "row shapes: 0-2 tags x 0-2 fields (thorough 0-3 x 0-3), default and compact key prefixes; the decoder's loops handle cells "
    "independently; larger rows are outside the claim",
    "strings: unbounded length, any characters (codec family); keys of one dict pairwise distinct (dict invariant)",
    "field values: None, abstract non-NaN double (covers 0.0, -0.0, inf, subnormals), symbolic int with |v| < 2^64",
    "time: abstract UTC-aware instant; isoformat/fromisoformat/replace modelled as inverse token operations",
    "csv family: strings of length <= 2 (thorough 3) over {a , \" ' ; \\ CR LF NUL e-acute space _} in measurement / tag key / tag "
    "value / field key, dialects {default, delimiter=';', QUOTE_ALL, quotechar=\"'\"}; other strings are outside that family",
    "NaN is excluded by the property (NaN != NaN)",
]
BOUNDS = {"quick": {"tags": 2, "fields": 2, "csv_len": 2}, "thorough": {"tags": 3, "fields": 3, "csv_len": 3}}

KF_NONE = "KF-C05-tag-value-equal-to-none-marker"
KF_BIGINT = "KF-C05-integer-not-representable-as-double"

_SRC = {}


def _defs():
    from tinyflux.point import Point

    if not _SRC:
        _SRC["ser"] = pysym.load(Point._serialize_to_list)
        _SRC["des"] = pysym.load(Point._deserialize_from_list)
        _SRC["funcs"], _SRC["methods"] = pysym.load_helpers(Point, exclude=("_serialize_to_list", "_deserialize_from_list"))
        _SRC["consts"] = {
            k: getattr(Point, k, None)
            for k in ("_none_str", "_default_tag_key_prefix", "_default_field_key_prefix", "_compact_tag_key_prefix", "_compact_field_key_prefix")
        }
    return _SRC


def sym_str(name):
    """A string input: unbounded z3 String under the symbolic engine, concrete on replay."""
    if lpe.is_symbolic():
        v = z3.String(name)
        lpe.CUR.inputs[name] = v
        return ZS(v)
    return str(lpe.CUR.values.get(name, ""))


def representable(iv):
    """The integer iv (|iv| < 2^64) is exactly a double."""
    e = iv.e
    a = z3.If(e >= 0, e, -e)
    return SymBool(z3.Or(*[z3.And(a <= 2 ** (53 + k), e % (2**k) == 0) for k in range(0, 12)]))


T0 = _dt.datetime(2021, 3, 4, 5, 6, 7, 891011, tzinfo=_dt.timezone.utc)


def h_codec(params):
    nt, nf, compact = params["n_tags"], params["n_fields"], params["compact"]
    kinds = params.get("kinds", ["none"] * nf)
    excl = set(params.get("exclude", []))
    if not lpe.is_symbolic():
        return _codec_concrete(params)
    d = _defs()
    it = Interp(d["consts"], d["funcs"], d["methods"])
    m = sym_str("m")
    tags = []
    for i in range(nt):
        k = sym_str(f"tk{i}")
        if sym_bool(f"tv{i}_is_none"):
            v = None
        else:
            v = sym_str(f"tv{i}")
            if KF_NONE in excl:
                assume(SymBool(v.e != z3.StringVal("_none")))
        tags.append((k, v))
    fields = []
    for i in range(nf):
        k = sym_str(f"fk{i}")
        kind = kinds[i]
        if kind == "none":
            v = None
        elif kind == "float":
            v = FloatVal(f"x{i}")
        else:
            v = sym_int(f"fi{i}", -(2**64) + 1, 2**64 - 1)
            if KF_BIGINT in excl:
                assume(representable(v))
        fields.append((k, v))
    for grp in (tags, fields):
        for i in range(len(grp)):
            for j in range(i):
                assume(SymBool(grp[i][0].e != grp[j][0].e))
    p = PyObj(_time=Time("T"), _measurement=m, _tags=AssocDict(tags), _fields=AssocDict(fields))
    try:
        row = pysym.call(d["ser"], it, self=p, compact_key_prefixes=compact)
    except pysym.PyRaise as e:
        fail(lambda: f"_serialize_to_list raised {type(e.exc).__name__}: {e.exc}")
    require(isinstance(row, tuple) and len(row) == 2 + 2 * nt + 2 * nf, lambda: f"row has {len(row)} cells for {nt} tags and {nf} fields")
    q = PyObj()
    try:
        pysym.call(d["des"], it, self=q, row=row)
    except pysym.PyRaise as e:
        fail(lambda: f"_deserialize_from_list raised {type(e.exc).__name__}: {e.exc} on the row it wrote")
    t = q.__dict__.get("_time")
    require(isinstance(t, Time) and t.tok == "T" and t.aware and not t.iso, lambda: f"time decodes to {t!r}")
    require(SymBool(zs(q._measurement) == m.e), lambda: "measurement does not survive the round trip")
    qt, qf = q._tags.pairs, q._fields.pairs
    require(len(qt) == nt and len(qf) == nf, lambda: f"{nt} tags / {nf} fields decode to {len(qt)} tags / {len(qf)} fields (tags no longer tags or fields no longer fields)")
    for k0, v0 in tags:
        alts = []
        for k1, v1 in qt:
            keq = zs(k1) == k0.e
            if v0 is None or v1 is None:
                veq = z3.BoolVal(v0 is None and v1 is None)
            else:
                veq = zs(v1) == v0.e
            alts.append(z3.And(keq, veq))
        require(SymBool(z3.Or(*alts)), lambda: f"tag {k0!r}: {v0!r} does not survive the round trip (decoded tags: {qt!r})")
    for k0, v0 in fields:
        alts = []
        for k1, v1 in qf:
            keq = zs(k1) == k0.e
            if v0 is None:
                veq = z3.BoolVal(v1 is None)
            elif isinstance(v0, FloatVal):
                veq = z3.BoolVal(isinstance(v1, FloatVal) and v1.tok == v0.tok)
            else:  # symbolic int: decoded value is float(v0); equal iff v0 is exactly representable
                if isinstance(v1, FloatVal) and v1.src is v0:
                    veq = representable(v0).e
                else:
                    veq = z3.BoolVal(False)
            alts.append(z3.And(keq, veq))
        require(SymBool(z3.Or(*alts)), lambda: f"field {k0!r}: {v0!r} does not survive the round trip (decoded fields: {qf!r})")
    lpe.note("ast_nodes", sorted(it.nodes))
    if params.get("twin"):
        fail("reachability twin")


def _codec_concrete(params):
    """Replay: the same point, concrete, through the real functions and a real CSV file."""
    from tinyflux import Point, TinyFlux

    nt, nf, compact = params["n_tags"], params["n_fields"], params["compact"]
    kinds = params.get("kinds", ["none"] * nf)
    vals = lpe.CUR.values
    tags = {}
    for i in range(nt):
        tags[str(vals.get(f"tk{i}", ""))] = None if vals.get(f"tv{i}_is_none") else str(vals.get(f"tv{i}", ""))
    fields = {}
    for i in range(nf):
        k = str(vals.get(f"fk{i}", ""))
        fields[k] = None if kinds[i] == "none" else (float(vals.get(f"x{i}", 1.5)) if kinds[i] == "float" else int(vals.get(f"fi{i}", 0)))
    if len(tags) != nt or len(fields) != nf:
        raise lpe.Infeasible()
    p = Point(time=T0, measurement=str(vals.get("m", "")), tags=tags, fields=fields)
    row = p._serialize_to_list(compact_key_prefixes=compact)
    q = Point()._deserialize_from_list(row)
    require(q == p, lambda: f"decode(encode(p)) != p: {show(p)} -> {list(row)!r} -> {show(q)}")

    def body(h):
        h.db.insert(Point(time=T0, measurement=p.measurement, tags=dict(tags), fields=dict(fields)), compact_key_prefixes=compact)
        h.db.close()
        db2 = TinyFlux(h.path)
        got = db2.all()
        db2.close()
        require(len(got) == 1 and got[0] == p, lambda: f"through a CSV file: {show(p)} came back as {show(got)}")

    run_path({"storage": "csv", "auto_index": True, "stub": False}, body)


ALPHA = ["a", ",", '"', "'", ";", "\\", "\r", "\n", "\x00", "é", " ", "_", "t", "f"]
DIALECTS = [{}, {"delimiter": ";"}, {"quoting": csv.QUOTE_ALL}, {"quotechar": "'"}]
SLOTS = ("measurement", "tag_key", "tag_value", "field_key")


def h_csv(params):
    """Real CSVStorage + C csv module: short strings in one slot, write, reopen, compare."""
    from tinyflux import Point, TinyFlux

    slot, dia, maxlen = params["slot"], DIALECTS[params["dialect"]], params["maxlen"]
    excl = set(params.get("exclude", []))

    def body(h):
        n = choose("len", maxlen + 1)
        s = "".join(ALPHA[choose(f"c{i}", len(ALPHA))] for i in range(n))
        if slot == "measurement" and s == "" and KF_EMPTY_M in excl:
            raise lpe.Infeasible()
        kw = {"time": T0, "measurement": "m", "tags": {"k": "v", "j": None}, "fields": {"f": 1.5, "g": None}}
        if slot == "measurement":
            kw["measurement"] = s
        elif slot == "tag_key":
            kw["tags"] = {s: "v", "j" + s: None}
        elif slot == "tag_value":
            kw["tags"] = {"k": s, "j": None}
        else:
            kw["fields"] = {s: 1.5, "g" + s: None}
        p = Point(**kw)
        compact = bool(params.get("compact"))
        h.db.insert(Point(**{k: (dict(v) if isinstance(v, dict) else v) for k, v in kw.items()}), compact_key_prefixes=compact)
        got_live = h.db.all()
        if params.get("swap"):
            # a second point is inserted and removed again: the storage is rewritten and its
            # handle reopened; the surviving point must still read back unchanged
            from tinyflux import MeasurementQuery

            h.db.insert(Point(time=T0 + _dt.timedelta(seconds=1), measurement="zz\r", tags={"q": "r\r\n"}, fields={}))
            n = h.db.remove(MeasurementQuery() == "zz\r")
            require(n == 1, lambda: f"remove of the auxiliary point returned {n}")
            got_live = h.db.all()
        h.db.close()
        db2 = TinyFlux(h.path, **dia)
        got = db2.all()
        db2.close()
        require(len(got_live) == 1 and got_live[0] == p, lambda: f"{slot}={s!r}: the live database returns {show(got_live)}")
        require(len(got) == 1 and got[0] == p, lambda: f"{slot}={s!r} dialect {dia}: after reopen {show(p)} came back as {show(got)}")
        if params.get("twin"):
            fail("reachability twin")

    run_path({"storage": "csv", "auto_index": params.get("ai", True), "csv_kwargs": dict(dia), "stub": False}, body)


KF_EMPTY_M = "KF-C05-empty-measurement"
TOKENS = ["", "a", "t", "f", "_", "t_", "f_", "_tag_", "_field_", "_none", "-1", "1.0", "e", "nan", " "]


def h_tokens(params):
    """Bounded fallback of the codec family on the REAL functions: every string slot ranges
    over all concatenations of two tokens of TOKENS (the reserved words and their pieces);
    two tag cells and two field cells, both prefix styles.  Selector enumeration."""
    from tinyflux import Point

    slot, compact = params["slot"], params["compact"]
    excl = set(params.get("exclude", []))
    s = TOKENS[choose("a", len(TOKENS))] + TOKENS[choose("b", len(TOKENS))]
    s2 = TOKENS[choose("c", len(TOKENS))]
    if KF_NONE in excl and slot == "tag_value" and "_none" in (s, s2):
        raise lpe.Infeasible()
    kw = {"time": T0, "measurement": "m", "tags": {"k": "v", "j": None}, "fields": {"f": 1.5, "g": None, "h": -3}}
    if slot == "measurement":
        kw["measurement"] = s
    elif slot == "tag_key":
        kw["tags"] = {s: "v", s2 + "x": None}
    elif slot == "tag_value":
        kw["tags"] = {"k": s, "j": s2}
    else:
        kw["fields"] = {s: 1.5, s2 + "x": None, "h" + s: -3}
    p = Point(**kw)
    try:
        row = p._serialize_to_list(compact_key_prefixes=compact)
        q = Point()._deserialize_from_list(list(row))
    except Exception as e:
        fail(lambda: f"codec raised {type(e).__name__}: {e} for {show(p)}")
    require(q == p, lambda: f"decode(encode(p)) != p: {show(p)} -> {list(row)!r} -> {show(q)}")
    require(list(q.tags) == list(p.tags) and list(q.fields) == list(p.fields), lambda: f"keys moved between tags and fields: {show(p)} -> {show(q)}")
    if params.get("twin"):
        fail("reachability twin")


NUMBERS = [0, 1, -1, 3, 0.0, -0.0, 1.5, -2.5e-05, -7e-07, 1e-4, 9.999e-5, 5e-324, 2.2250738585072014e-308, 1e15, 1e16, 1e22, 123456789.125, 0.1,
           1.7976931348623157e308, float("inf"), float("-inf"), 2**53, -(2**53), 15000000, 1e-10, 6.02e23]


def h_numbers(params):
    """Field values from a battery of special doubles / ints through the REAL codec and a real
    CSV file (bounded fallback of the abstract-double argument; selector enumeration)."""
    import math

    from tinyflux import Point, TinyFlux

    compact = params["compact"]
    v = NUMBERS[choose("v", len(NUMBERS))]
    w = NUMBERS[choose("w", len(NUMBERS))]
    p = Point(time=T0, measurement="m", tags={"k": "v"}, fields={"a": v, "b": None, "c": w})
    row = p._serialize_to_list(compact_key_prefixes=compact)
    q = Point()._deserialize_from_list(list(row))
    require(q == p, lambda: f"decode(encode(p)) != p: fields {p.fields!r} -> {list(row)!r} -> {q.fields!r}")
    for k in ("a", "c"):
        a, b = p.fields[k], q.fields[k]
        require(math.copysign(1, a) == math.copysign(1, b), lambda: f"sign of zero lost: {a!r} -> {b!r}")
    if params.get("file"):

        def body(h):
            h.db.insert(Point(time=T0, measurement="m", tags={"k": "v"}, fields={"a": v, "b": None, "c": w}), compact_key_prefixes=compact)
            h.db.close()
            db2 = TinyFlux(h.path)
            got = db2.all()
            db2.close()
            require(len(got) == 1 and got[0] == p, lambda: f"through a CSV file fields {p.fields!r} came back as {show(got)}")

        run_path({"storage": "csv", "auto_index": True, "stub": False}, body)
    if params.get("twin"):
        fail("reachability twin")


HARNESS = {"h_codec": h_codec, "h_csv": h_csv, "h_tokens": h_tokens, "h_numbers": h_numbers}


def classify(ob, res):
    inp = res.get("inputs") or {}
    msg = ((res.get("replay") or {}).get("msg") or res.get("msg") or "")
    if ob["harness"] == "h_tokens" and ob["params"]["slot"] == "tag_value":
        if "_none" in (TOKENS[inp.get("a", 0)] + TOKENS[inp.get("b", 0)], TOKENS[inp.get("c", 0)]):
            return KF_NONE
    if ob["harness"] == "h_codec":
        p = ob["params"]
        for i in range(p["n_tags"]):
            if not inp.get(f"tv{i}_is_none") and inp.get(f"tv{i}") == "_none":
                return KF_NONE
        for i, kind in enumerate(p.get("kinds", [])):
            if kind == "int" and f"fi{i}" in inp and float(inp[f"fi{i}"]) != inp[f"fi{i}"]:
                return KF_BIGINT
    return None


def preflight(tier):
    """Lemmas + translator validation + sampled CPython facts."""
    from tinyflux import Point

    out = {"L-int-float": lemmas.lemma_int_float(), "L-repr-lang": lemmas.lemma_repr_lang(5000 if tier == "quick" else 100000)}
    for k, v in out.items():
        if not v["ok"]:
            print(f"HARNESS-ERROR lemma {k} failed: {v}")
            raise SystemExit(2)
    # translator validation: interpret the real source on concrete points, compare with CPython
    d = _defs()
    rnd = random.Random(5)
    pts = [
        Point(time=T0, measurement="m", tags={"a": "b", "c": None, "": ""}, fields={"x": 1, "y": -2.5, "z": None}),
        Point(time=T0, measurement="_none", tags={"t": "_tag_", "_tag_": "t_"}, fields={"f_": 0, "_field_": -0.0}),
        Point(time=T0, measurement="a,b\n", tags={}, fields={}),
        Point(time=T0, measurement="x", tags={"k": "v"}, fields={}),
        Point(time=T0, measurement="x", tags={}, fields={"f": float("inf")}),
    ]
    chars = "abtf_ ,\"\né-.0e"
    for _ in range(200 if tier == "quick" else 2000):
        nt, nf = rnd.randrange(3), rnd.randrange(3)
        pts.append(
            Point(
                time=T0,
                measurement="".join(rnd.choice(chars) for _ in range(rnd.randrange(1, 4))),
                tags={"".join(rnd.choice(chars) for _ in range(rnd.randrange(3))) + str(i): rnd.choice([None, "", "_none", "v" + rnd.choice(chars)]) for i in range(nt)},
                fields={"".join(rnd.choice(chars) for _ in range(rnd.randrange(3))) + str(i): rnd.choice([None, 0, -1, 3.25, 1e22, -0.0, 2**53 + 1, float("-inf")]) for i in range(nf)},
            )
        )
    n = 0
    eng = lpe.Engine(budget_s=60)

    def one():
        for p in pts:
            for compact in (False, True):
                it = Interp(d["consts"], d["funcs"], d["methods"])
                # concrete values: strings as Python str, numbers as Python numbers, time as a token
                po = PyObj(_time=Time("T"), _measurement=p.measurement, _tags=AssocDict(list(p.tags.items())), _fields=AssocDict(list(p.fields.items())))
                row = pysym.call(d["ser"], it, self=po, compact_key_prefixes=compact)
                real = p._serialize_to_list(compact_key_prefixes=compact)
                got = tuple(real[0] if isinstance(c, Time) else c for c in row)
                assert got == tuple(real), (p, got, real)
                q = PyObj()
                it2 = Interp(d["consts"], d["funcs"], d["methods"])
                pysym.call(d["des"], it2, self=q, row=(Time("T", aware=False, iso=True),) + tuple(real[1:]))
                rq = Point()._deserialize_from_list(real)
                assert q._measurement == rq.measurement and dict(q._tags.pairs) == rq.tags, (p, q.__dict__, rq)
                assert list(dict(q._fields.pairs).keys()) == list(rq.fields.keys()), (p, q._fields.pairs, rq.fields)
                for k, v in q._fields.pairs:
                    w = rq.fields[k]
                    assert (v is None and w is None) or (v == w and type(v) is type(w)), (p, k, v, w)

    r = eng.explore(one)
    n = len(pts) * 2
    if r["verdict"] == "inconclusive":
        # the codec uses a construct the translator does not know: the codec family will
        # report itself inconclusive; the bounded families on the real functions still decide
        out["translator_validation"] = f"skipped: {r['msg']}"
        n = 0
    elif r["verdict"] != "holds":
        print(f"HARNESS-ERROR translator validation failed: {r}")
        raise SystemExit(2)
    # CPython facts assumed for the abstract values
    m = 0
    for _ in range(20000 if tier == "quick" else 200000):
        import struct

        x = struct.unpack("<d", struct.pack("<Q", rnd.getrandbits(64)))[0]
        if x == x:
            assert float(repr(x)) == x and float(str(float(x))) == x
            m += 1
    for x in (0.0, -0.0, float("inf"), float("-inf"), 5e-324, 2.2250738585072014e-308, 1.7976931348623157e308, 0.1, 1e22, 1e16, 123456789.125):
        assert float(str(float(x))) == x and math.copysign(1, float(str(x))) == math.copysign(1, x)
        m += 1
    epoch = _dt.datetime(1970, 1, 1, tzinfo=_dt.timezone.utc)
    for _ in range(5000):
        t = epoch + _dt.timedelta(microseconds=rnd.randrange(-8_520_000_000_000_000, 8_550_000_000_000_000))
        assert _dt.datetime.fromisoformat(t.replace(tzinfo=None).isoformat()).replace(tzinfo=_dt.timezone.utc) == t
        m += 1
    out["translator_validation_points"] = n
    out["cpython_facts_sampled"] = m
    out["validated"] = n + m
    return out


def obligations(tier):
    b = BOUNDS[tier]
    obs = []
    for nt in range(b["tags"] + 1):
        for nf in range(b["fields"] + 1):
            for compact in (False, True):
                for kinds in itertools.product(("none", "float", "int"), repeat=nf):
                    obs.append({"id": f"codec/tags{nt}/fields{nf}[{','.join(kinds)}]/{'compact' if compact else 'default'}", "harness": "h_codec", "params": {"n_tags": nt, "n_fields": nf, "compact": compact, "kinds": list(kinds)}, "budget_s": 120 if tier == "quick" else 900})
    for slot in SLOTS:
        for dia in range(len(DIALECTS)):
            for compact in (False, True):
                obs.append({"id": f"csv/{slot}/dialect{dia}/{'compact' if compact else 'default'}", "harness": "h_csv", "params": {"slot": slot, "dialect": dia, "maxlen": b["csv_len"], "compact": compact, "swap": compact}, "budget_s": 300})
    for slot in SLOTS:
        for compact in (False, True):
            obs.append({"id": f"tokens/{slot}/{'compact' if compact else 'default'}", "harness": "h_tokens", "params": {"slot": slot, "compact": compact}, "budget_s": 120})
    for compact in (False, True):
        for f in (False, True):
            obs.append({"id": f"numbers/{'compact' if compact else 'default'}/{'file' if f else 'codec'}", "harness": "h_numbers", "params": {"compact": compact, "file": f}, "budget_s": 120})
    obs.append({"id": "twin/tokens", "harness": "h_tokens", "params": {"slot": "tag_key", "compact": True, "twin": True}, "budget_s": 60})
    obs.append({"id": "twin/codec", "harness": "h_codec", "params": {"n_tags": 1, "n_fields": 1, "compact": False, "kinds": ["float"], "twin": True}, "budget_s": 60})
    obs.append({"id": "twin/csv", "harness": "h_csv", "params": {"slot": "tag_value", "dialect": 0, "maxlen": 1, "twin": True}, "budget_s": 60})
    return obs
