"""C07 - exploration getters and lengths report exactly what is stored."""
from ..hist import SYM
from . import histcommon as hc
from .c01 import CONFIGS

PROP = "C07"
FUNCTIONS_ENCODED = [
    "tinyflux.database.TinyFlux.get_measurements/get_tag_keys/get_tag_values/get_field_keys/get_field_values/get_timestamps/__len__/__iter__/all",
    "tinyflux.measurement.Measurement.__len__/__iter__/all/get_* wrappers",
    "tinyflux.index.Index.get_measurements/get_tag_keys/get_tag_values/get_field_keys/get_field_values/get_timestamps/__len__",
    "tinyflux.storages.MemoryStorage.__len__/__iter__, CSVStorage.__len__/__iter__ (csv configuration)",
]
TRUSTED = hc.TRUSTED
ASSUMPTIONS = hc.COMMON_ASSUMPTIONS + [
    "bounds: 3 points (2 in csv quick) with symbolic time, measurement in {m,n}, tag k in {absent, None, 'a'}, tag j in "
    "{absent,'a'}, field f in {absent, None, symbolic int}, field g on every other point; optional remove/update before; "
    "measurement filters {none, 'm', 'n', 'zz'}; tag_keys selections {[], ['k'], ['j','zz']}",
    "csv: additionally tag values containing CR/LF (fixed strings) to exercise row counting",
    "outside the claim: larger databases, other key names",
]
BOUNDS = {"points": 3}
HARNESS = {"h_getters": hc.h_getters}


def _ob(oid, budget=90, **p):
    return {"id": oid, "harness": "h_getters", "params": p, "budget_s": budget}


PRE = {
    "none": [],
    "rm": [("rm", ("tag", "k", "==", "a"))],
    "upd": [("upd", ("tag", "k", "==", "a"), {"fields": {"g": 3}, "measurement": "n"})],
    "drop": [("drop", "n")],
    "rmall_ins": [("rmall",), ("ins", {"time": SYM, "meas": "m", "tags": {"k": "a"}, "fields": {"f": 1}})],
    # an update that fails half-way (its callable raises a RuntimeError on the second selected point; a static tag
    # edit has already been applied to the first)
    "upd_fail": [("upd_fail", ("tag", "k", "!=", "zz"), "fields")],
}


def obligations(tier):
    th = tier == "thorough"
    obs = []
    for pname, ops in PRE.items():
        for cname, ai, rx in CONFIGS:
            for via in (False, True):
                for focus in ("tags", "fields", "time"):
                    obs.append(_ob(f"getters/{pname}/{cname}/{'handle' if via else 'db'}/{focus}", ops=ops, ai=ai, reindex=rx, via=via, focus=focus, n=3, budget=300 if th else 90))
    for pname in ("none", "rm", "upd"):
        for cname, ai, rx in CONFIGS[:2]:
            for focus in ("tags", "fields", "time"):
                obs.append(_ob(f"csv/getters/{pname}/{cname}/{focus}", ops=PRE[pname], ai=ai, storage="csv", n=3 if th else 2, focus=focus, reopen=(cname == "scan"), via=(cname == "ai"), budget=300 if th else 120))
    for cname, ai, rx in CONFIGS:
        obs.append({"id": f"csv/linebreaks/{cname}", "harness": "h_csv_linebreaks", "params": {"ai": ai, "reindex": rx}, "budget_s": 60})
    if th:
        for focus in ("tags", "fields", "time"):
            obs.append(_ob(f"n4/getters/{focus}", ops=[], ai=True, n=4, focus=focus, budget=900))
            obs.append(_ob(f"n4/getters/scan/{focus}", ops=[], ai=False, n=4, focus=focus, budget=900))
    obs.append(_ob("twin/getters", ops=[], ai=True, n=2, focus="time", twin=True))
    return obs


def h_csv_linebreaks(params):
    """CSV rows whose tag values contain CR / LF: len(), iteration and getters must count rows."""
    from ..hist import apply_op, run_path
    from ..lpe import choose

    vals = ["a\nb", "c\r\nd", "\n", "e\rf", "plain"]

    def body(h):
        n = 1 + choose("n", 3)
        for i in range(n):
            v = vals[choose(f"v{i}", len(vals))]
            apply_op(h, ("ins", {"time": SYM, "meas": ["m", "n"][i % 2], "tags": {"k": v}, "fields": {"f": i}}))
        if params.get("reindex"):
            apply_op(h, ("reindex",))
        hc.check_getters(h, [None, "m"], True)
        # the same after the file was rewritten (handle reopened) by an update and a removal
        apply_op(h, ("ins", {"time": SYM, "meas": "n", "tags": {"k": "gone"}, "fields": {"f": 9}}))
        apply_op(h, ("upd", ("tag", "k", "==", "gone"), {"fields": {"f": 10}}))
        hc.check_getters(h, [None, "m"], False)
        apply_op(h, ("rm", ("tag", "k", "==", "gone")))
        if params.get("reindex"):
            apply_op(h, ("reindex",))
        hc.check_getters(h, [None, "m", "n"], True)

    run_path({"storage": "csv", "auto_index": params.get("ai", True), "csv_times": 2}, body)


HARNESS["h_csv_linebreaks"] = h_csv_linebreaks
