"""CrossHair harnesses for C18 (see c18.py)."""
from typing import List

from tinyflux.utils import find_eq, find_ge, find_gt, find_le, find_lt

from ..chdrv import cap

EXCLUDE = set()
PARAMS = {}


def _sorted(l):
    return all(l[i] <= l[i + 1] for i in range(len(l) - 1))


def _nonan(l, x):
    return x == x and all(v == v for v in l)


def _first(hit):
    return hit[0] if hit else None


def _last(hit):
    return hit[-1] if hit else None


def _eq(l, x):
    return find_eq(l, x) == _first([i for i in range(len(l)) if l[i] == x])


def _lt(l, x):
    return find_lt(l, x) == _last([i for i in range(len(l)) if l[i] < x])


def _le(l, x):
    return find_le(l, x) == _last([i for i in range(len(l)) if l[i] <= x])


def _gt(l, x):
    return find_gt(l, x) == _first([i for i in range(len(l)) if l[i] > x])


def _ge(l, x):
    return find_ge(l, x) == _first([i for i in range(len(l)) if l[i] >= x])


def h_find_eq_int(l: List[int], x: int) -> bool:
    """
    pre: len(l) <= PARAMS.get("maxlen", 7)
    pre: _sorted(l)
    post: _
    """
    return cap(_eq, l, x)


def h_find_lt_int(l: List[int], x: int) -> bool:
    """
    pre: len(l) <= PARAMS.get("maxlen", 7)
    pre: _sorted(l)
    post: _
    """
    return cap(_lt, l, x)


def h_find_le_int(l: List[int], x: int) -> bool:
    """
    pre: len(l) <= PARAMS.get("maxlen", 7)
    pre: _sorted(l)
    post: _
    """
    return cap(_le, l, x)


def h_find_gt_int(l: List[int], x: int) -> bool:
    """
    pre: len(l) <= PARAMS.get("maxlen", 7)
    pre: _sorted(l)
    post: _
    """
    return cap(_gt, l, x)


def h_find_ge_int(l: List[int], x: int) -> bool:
    """
    pre: len(l) <= PARAMS.get("maxlen", 7)
    pre: _sorted(l)
    post: _
    """
    return cap(_ge, l, x)


def h_find_eq_float(l: List[float], x: float) -> bool:
    """
    pre: len(l) <= PARAMS.get("maxlen", 4)
    pre: _nonan(l, x) and _sorted(l)
    post: _
    """
    return cap(_eq, l, x)


def h_find_lt_float(l: List[float], x: float) -> bool:
    """
    pre: len(l) <= PARAMS.get("maxlen", 4)
    pre: _nonan(l, x) and _sorted(l)
    post: _
    """
    return cap(_lt, l, x)


def h_find_le_float(l: List[float], x: float) -> bool:
    """
    pre: len(l) <= PARAMS.get("maxlen", 4)
    pre: _nonan(l, x) and _sorted(l)
    post: _
    """
    return cap(_le, l, x)


def h_find_gt_float(l: List[float], x: float) -> bool:
    """
    pre: len(l) <= PARAMS.get("maxlen", 4)
    pre: _nonan(l, x) and _sorted(l)
    post: _
    """
    return cap(_gt, l, x)


def h_find_ge_float(l: List[float], x: float) -> bool:
    """
    pre: len(l) <= PARAMS.get("maxlen", 4)
    pre: _nonan(l, x) and _sorted(l)
    post: _
    """
    return cap(_ge, l, x)


def _false(l, x):
    find_le(l, x)
    return False


def h_twin(l: List[int], x: int) -> bool:
    """
    pre: len(l) <= PARAMS.get("maxlen", 3)
    pre: _sorted(l)
    post: _
    """
    return cap(_false, l, x)
