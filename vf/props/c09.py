"""C09 - query expressions mean what the DSL says and never fail on valid points.

lpe family: every leaf of the vocabulary and every compound up to depth 2 (thorough:
depth 3 over representative leaves) evaluated on one symbolic point (time and field value
unbounded ints, tag value / measurement from finite alphabets incl. missing key, None,
empty string), comparison operators and right-hand sides symbolic.
CrossHair family: tag and measurement comparisons with genuinely symbolic strings
(length <= 4) on both sides, regex leaves on symbolic strings (length <= 2).
"""
import itertools
import re

from .. import lpe, symtime
from ..hist import H, SYM
from ..lpe import fail, require, show
from ..model import MP, b_and, b_not, b_or, compile_q, q_repr, spec
from ..symtime import mk_time
from .c01 import COMPOUNDS, L_FIELD, L_MEAS, L_TAG, L_TIME, OP, _untuple

PROP = "C09"
FUNCTIONS_ENCODED = [
    "tinyflux.queries.BaseQuery.__eq__/__ne__/__lt__/__le__/__gt__/__ge__/test/matches/search/exists/noop/map/__getitem__",
    "BaseQuery._generate_simple_query (test, path_resolver)",
    "SimpleQuery.__call__/__and__/__or__/__invert__",
    "CompoundQuery.__call__/__and__/__or__/__invert__",
]
TRUSTED = ["z3", "vf.lpe", "vf.symtime", "vf.model.spec (documented meaning)", "CrossHair 0.0.110"]
ASSUMPTIONS = [
    "one valid point: time symbolic int in 1700..2240 (aware UTC), field value unbounded int | None | key missing, "
    "tag value in {missing, None, '', 'a', 'b'} (lpe) or any str of length <= 4 | None | missing (CrossHair), "
    "measurement in {'m','n'} (lpe) or any str of length <= 4 (CrossHair)",
    "expressions: all vocabulary leaves; compounds to depth 2 over all leaf pairs of the representative set (quick), depth 3 (thorough); "
    "regexes, test and map functions from fixed menus; user functions are total",
    "outside the claim: deeper expressions, float field values, longer strings, other regexes",
]
BOUNDS = {"quick": {"depth": 2}, "thorough": {"depth": 3}}

LEAVES = L_TIME + L_MEAS + L_TAG + L_FIELD + [("tags_map", "f_keys", "==", "k"), ("tags_mapkey", "f_ident", "j", "!=", SYM)]
REPS = [("time", OP, SYM), ("meas", "==", "m"), ("tag", "k", OP, SYM), ("tag_exists", "k"), ("field", "f", OP, SYM), ("field_exists", "f"), ("tag_re", "k", "matches", "a|", 0), ("noop", "tag")]


def h_expr(params):
    qd0 = _untuple(params["q"])
    h = H({"storage": "mem", "floats": params.get("floats", False)})
    symtime.CLOCK.reset()
    lpe.HASH_OK[0] = True
    if lpe.is_symbolic():
        symtime.install()
    try:
        from tinyflux import Point

        p, mp = h.mk_point({"time": SYM, "meas": SYM, "tags": {"k": SYM}, "fields": {"f": "opt"}})
        # the stub class is used directly for the point's time (no module rebinding needed)
        qd = h.q(qd0)
        _check(qd, p, mp)
        if params.get("twin"):
            fail("reachability twin")
    finally:
        lpe.HASH_OK[0] = False
        symtime.uninstall()


_mk = mk_time


def _eval(qd, p):
    try:
        q = compile_q(qd, _mk)
    except Exception as e:
        fail(lambda: f"building {q_repr(qd)} raised {type(e).__name__}: {e}")
    try:
        r = q(p)
    except Exception as e:
        fail(lambda: f"evaluating {q_repr(qd)} on {show(p)} raised {type(e).__name__}: {e}")
    return r


def _check(qd, p, mp):
    r = _eval(qd, p)
    exp = spec(qd, mp)
    require(isinstance(r, (bool, lpe.SymBool)), lambda: f"{q_repr(qd)} returned non-boolean {show(r)}")
    require(r == exp, lambda: f"{q_repr(qd)} on {show(p)} is {show(r)}, documented meaning gives {show(exp)}")
    k = qd[0]
    if k == "not":
        a = _eval(qd[1], p)
        require(r == b_not(a), lambda: f"~q is {show(r)} but q is {show(a)} [{q_repr(qd)}]")
    elif k in ("and", "or"):
        a, b = _eval(qd[1], p), _eval(qd[2], p)
        e = b_and(a, b) if k == "and" else b_or(a, b)
        require(r == e, lambda: f"{k}: {show(r)} but operands are {show(a)}, {show(b)} [{q_repr(qd)}]")


HARNESS = {"h_expr": h_expr}


def _ob(oid, q, budget=60, **kw):
    p = {"q": q}
    p.update(kw)
    return {"id": oid, "harness": "h_expr", "params": p, "budget_s": budget}


def shapes(tier):
    out = [("leaf", q) for q in LEAVES]
    for q in LEAVES:
        out.append(("not", ("not", q)))
        out.append(("notnot", ("not", ("not", q))))
    for a, b in itertools.product(REPS, REPS):
        out.append(("and", ("and", a, b)))
        out.append(("or", ("or", a, b)))
    for q in COMPOUNDS:
        out.append(("c01", q))
    if tier == "thorough":
        for a, b in itertools.product(LEAVES, LEAVES):
            out.append(("and2", ("and", a, b)))
            out.append(("or2", ("or", a, b)))
        r3 = REPS[:6]
        for a, b, c in itertools.product(r3, r3, r3):
            out.append(("d3a", ("and", a, ("or", b, c))))
            out.append(("d3b", ("or", ("not", ("and", a, b)), c)))
            out.append(("d3c", ("not", ("or", ("not", a), ("and", b, c)))))
    return out


def obligations(tier):
    obs = []
    seen = set()
    for kind, q in shapes(tier):
        oid = f"{kind}/{q_repr(q)}"
        if oid in seen:
            continue
        seen.add(oid)
        obs.append(_ob(oid, q, budget=120))
    for q in L_FIELD + [("and", ("field", "f", OP, SYM), ("field", "f", OP, SYM)), ("or", ("not", ("field", "f", OP, SYM)), ("field_exists", "f")), ("not", ("field_map", "f", "f_neg", OP, SYM))]:
        obs.append(_ob(f"floats/{q_repr(q)}", q, budget=120, floats=True))
    obs.append(_ob("twin/leaf", ("tag", "k", OP, SYM), twin=True))
    obs.append(_ob("twin/compound", ("and", ("time", OP, SYM), ("field", "f", OP, SYM)), twin=True))
    ch = ["h_tag_cmp", "h_meas_cmp", "h_tag_regex", "h_tag_and_field", "h_field_cmp"]
    for hname in ch:
        obs.append({"id": f"crosshair/{hname}", "engine": "ch", "harness": hname, "params": {}, "budget_s": 100 if tier == "quick" else 900})
    obs.append({"id": "twin/crosshair", "engine": "ch", "harness": "h_twin", "params": {"twin": True}, "budget_s": 30})
    return obs


def replay(body):
    if body.get("engine") == "ch":
        import sys

        from .. import chdrv

        return chdrv.replay_body(sys.modules[__name__], body)
    params = dict(body["params"] or {})
    return lpe.ConcreteEngine(body["inputs"] or {}).run(lambda: HARNESS[body["harness"]](params))
