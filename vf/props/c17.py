"""C17 - queries that compare equal behave identically.

For every ordered pair of query shapes up to depth 2 over the vocabulary (right-hand
sides symbolic: unbounded ints / selectors over small string alphabets / regex flag
selectors) and one symbolic point:  q1 == q2  implies  q1(p) == q2(p) and
hash(q1) == hash(q2);  a & b == b & a and a | b == b | a for simple and compound
operands; a query containing map() is != everything, itself included.
"""
import itertools
import re

from .. import lpe, symtime
from ..hist import H, SYM
from ..lpe import choose, fail, require, show
from ..model import compile_q, q_repr
from ..symtime import mk_time
from .c01 import OP, _untuple

PROP = "C17"
FUNCTIONS_ENCODED = [
    "tinyflux.queries.SimpleQuery.__eq__/__hash__/__and__/__or__/__invert__/__call__",
    "CompoundQuery.__eq__/__hash__/__and__/__or__/__invert__/__call__",
    "BaseQuery comparison operators / test / matches / search / exists / noop / map (hashval construction)",
]
TRUSTED = ["z3", "vf.lpe", "vf.symtime", "CrossHair 0.0.110 (string right-hand sides)"]
ASSUMPTIONS = [
    "pairs: every ordered pair of the shape list (leaves with both keys 'k'/'j', both regex kinds, flags in {0, re.I, re.S}, "
    "test functions with different arguments; ~L, L&L', L|L' over representative leaves)",
    "right-hand sides: unbounded symbolic ints (field, time), selectors over {None,'','a','b'} (tags) and {'m','n','zz'} "
    "(measurement); CrossHair: arbitrary strings of length <= 3",
    "one symbolic point as in C09",
    "constant hash for integer proxies: the hash equality asserted is over the structural part of the hash tuple and over "
    "right-hand sides of the same kind (both symbolic); a counterexample is replayed with real ints",
    "outside the claim: depth > 2, float right-hand sides",
]
BOUNDS = {"quick": {"depth": 2}, "thorough": {"depth": 2, "all_leaf_pairs_in_compounds": True}}

def _ops(*ops):
    return ops


LEAVES = [
    ("time", "==", SYM),
    ("time", "<", SYM),
    ("time_test", "ge", SYM),
    ("time_map", "f_plus1s", "==", SYM),
    ("noop", "time"),
    ("meas", "==", SYM),
    ("meas", ">=", SYM),
    ("meas_re", "matches", "m|zz", 0),
    ("meas_re", "matches", "m|zz", re.I),
    ("meas_re", "search", "m|zz", 0),
    ("meas_map", "f_upper", "==", "M"),
    ("noop", "meas"),
    ("tag", "k", "==", SYM),
    ("tag", "k", "!=", SYM),
    ("tag", "j", "==", SYM),
    ("tag_exists", "k"),
    ("tag_exists", "j"),
    ("tag_re", "k", "matches", "A", 0),
    ("tag_re", "k", "matches", "A", re.I),
    ("tag_re", "k", "search", "A", 0),
    ("tag_re", "k", "search", "A", re.I),
    ("tag_re", "k", "matches", "a.", re.S),
    ("tag_re", "j", "matches", "A", 0),
    ("tag_test", "k", "f_is_a"),
    ("tag_test", "k", "f_notnone"),
    ("tag_map", "k", "f_upper", "==", "A"),
    ("tags_mapkey", "f_ident", "k", "==", "a"),
    ("tags_mapkey", "f_ident", "j", "==", "a"),
    ("tags_map", "f_keys", "==", "k"),
    ("noop", "tag"),
    ("field", "f", "<", SYM),
    ("field", "f", "<=", SYM),
    ("field", "g", "<", SYM),
    ("field_exists", "f"),
    ("field_test", "f", "f_pos", 0),
    ("field_test", "f", "f_pos", 1),
    ("field_map", "f", "f_neg", "<", SYM),
    ("noop", "field"),
]
REPS = [("time", ">=", SYM), ("tag", "k", "==", SYM), ("field", "f", "<", SYM), ("tag_re", "k", "matches", "A", 0), ("tag_re", "k", "matches", "A", re.I), ("tag_map", "k", "f_upper", "==", "A"), ("tags_mapkey", "f_ident", "k", "==", "a")]
# same-kind leaf pairs with both operators symbolic (6 x 6 operator pairs each)
OPLEAVES = [("time", OP, SYM), ("meas", OP, SYM), ("tag", "k", OP, SYM), ("field", "f", OP, SYM)]


def shapes(tier):
    out = list(LEAVES)
    for q in REPS:
        out.append(("not", q))
    src = LEAVES if tier == "thorough" else REPS
    for a, b in itertools.product(REPS, src):
        out.append(("and", a, b))
        out.append(("or", a, b))
    for a, b in itertools.product(REPS[:3], REPS[:3]):
        out.append(("and", ("and", a, b), a))
        out.append(("and", a, ("and", a, b)))
        out.append(("or", ("or", a, b), b))
        out.append(("not", ("and", a, b)))
    seen, uniq = set(), []
    for q in out:
        if q not in seen:
            seen.add(q)
            uniq.append(q)
    return uniq


def fix_strs(q):
    """Pair family: string right-hand sides are fixed ('a' / 'm'); they vary in the oppair
    and CrossHair families.  Integer right-hand sides stay symbolic."""
    k = q[0]
    if k == "not":
        return ("not", fix_strs(q[1]))
    if k in ("and", "or"):
        return (k, fix_strs(q[1]), fix_strs(q[2]))
    if k.startswith("tag"):
        return tuple("a" if x == SYM else x for x in q)
    if k.startswith("meas"):
        return tuple("m" if x == SYM else x for x in q)
    return q


def has_map(q):
    k = q[0]
    if k == "not":
        return has_map(q[1])
    if k in ("and", "or"):
        return has_map(q[1]) or has_map(q[2])
    return k.endswith("_map") or k.endswith("_mapkey")


def _point(h):
    return h.mk_point({"time": SYM, "meas": SYM, "tags": {"k": SYM, "j": ("absent", "a")}, "fields": {"f": "opt", "g": ("absent", 1) if False else 1}})


def _run(body):
    h = H({"storage": "mem"})
    symtime.CLOCK.reset()
    lpe.HASH_OK[0] = True
    if lpe.is_symbolic():
        symtime.install()
    try:
        body(h)
    finally:
        lpe.HASH_OK[0] = False
        symtime.uninstall()


def _ev(q, p, what):
    try:
        return q(p)
    except Exception as e:
        fail(lambda: f"evaluating {what} raised {type(e).__name__}: {e}")


def h_pair(params):
    """q1 fixed by params, q2 selected symbolically among all shapes."""
    sh = shapes(params.get("tier", "quick"))
    qd1 = _untuple(params["q"])

    def body(h):
        j = choose("shape2", len(sh))
        a, b = h.q(fix_strs(qd1)), h.q(fix_strs(sh[j]))
        q1, q2 = compile_q(a, mk_time), compile_q(b, mk_time)
        try:
            eq = q1 == q2
            eq2 = q2 == q1
        except Exception as e:
            fail(lambda: f"{q_repr(a)} == {q_repr(b)} raised {type(e).__name__}: {e}")
        require(isinstance(eq, bool), lambda: f"== returned {show(eq)}")
        if has_map(a) or has_map(b):
            require(eq is False and eq2 is False, lambda: f"query with map() compares equal: {q_repr(a)} == {q_repr(b)}")
            return
        if eq:
            p, mp = _point(h)
            r1, r2 = _ev(q1, p, q_repr(a)), _ev(q2, p, q_repr(b))
            require(r1 == r2, lambda: f"{q_repr(a)} == {q_repr(b)} but on {show(p)} they evaluate to {show(r1)} and {show(r2)}")
            require(hash(q1) == hash(q2), lambda: f"{q_repr(a)} == {q_repr(b)} but hashes differ")
            require(eq2, lambda: f"{q_repr(a)} == {q_repr(b)} but not the other way round")
        if params.get("twin"):
            fail("reachability twin")

    _run(body)


def h_oppair(params):
    """Same-kind comparison leaves, both operators and both right-hand sides symbolic."""
    qd = _untuple(params["q"])

    def body(h):
        a, b = h.q(qd), h.q(qd)
        q1, q2 = compile_q(a, mk_time), compile_q(b, mk_time)
        eq = q1 == q2
        if eq:
            p, mp = _point(h)
            r1, r2 = _ev(q1, p, q_repr(a)), _ev(q2, p, q_repr(b))
            require(r1 == r2, lambda: f"{q_repr(a)} == {q_repr(b)} but on {show(p)} they evaluate to {show(r1)} and {show(r2)}")
            require(hash(q1) == hash(q2), lambda: f"{q_repr(a)} == {q_repr(b)} but hashes differ")
        else:
            # different operator or different value: the pair is allowed to be unequal
            pass
        if params.get("twin"):
            fail("reachability twin")

    _run(body)


def h_commute(params):
    """a & b == b & a, a | b == b | a, and both evaluate alike."""
    qa, qb = _untuple(params["a"]), _untuple(params["b"])

    def body(h):
        a, b = h.q(qa), h.q(qb)
        x, y = compile_q(a, mk_time), compile_q(b, mk_time)
        p, mp = _point(h)
        for nm, l, r in (("&", x & y, y & x), ("|", x | y, y | x)):
            if has_map(a) or has_map(b):
                require(not (l == r), lambda: f"map query equal under {nm}")
            else:
                require(l == r, lambda: f"({q_repr(a)} {nm} {q_repr(b)}) != ({q_repr(b)} {nm} {q_repr(a)})")
                require(hash(l) == hash(r), lambda: f"commuted {nm} hashes differ for {q_repr(a)}, {q_repr(b)}")
            require(_ev(l, p, "l") == _ev(r, p, "r"), lambda: f"commuted {nm} evaluates differently on {show(p)}")
        if params.get("twin"):
            fail("reachability twin")

    _run(body)


def _same_value_pairs():
    """Pairs of queries whose operands are EQUAL VALUES WRITTEN DIFFERENTLY (1 / 1.0, one instant in two
    zones, re.I / 2, attribute / item access, tuple of extra test arguments): whenever tinyflux calls them
    equal they must hash alike and evaluate alike."""
    import datetime as dt
    import re

    from tinyflux import FieldQuery, MeasurementQuery, TagQuery, TimeQuery

    t_utc = dt.datetime(2021, 3, 4, 5, 6, 7, tzinfo=dt.timezone.utc)
    t_off = t_utc.astimezone(dt.timezone(dt.timedelta(hours=5, minutes=30)))
    f = lambda v, lim: v is not None and v < lim  # noqa: E731
    out = []
    for a, b in ((1, 1.0), (0, 0.0), (0.0, -0.0), (-2, -2.0), (2**53, float(2**53))):
        for op in ("==", "!=", "<", ">="):
            mk = {"==": lambda q, v: q == v, "!=": lambda q, v: q != v, "<": lambda q, v: q < v, ">=": lambda q, v: q >= v}[op]
            out.append((f"field f {op} {a!r} / {b!r}", mk(FieldQuery().f, a), mk(FieldQuery().f, b)))
        out.append((f"field f test(fn, {a!r}) / test(fn, {b!r})", FieldQuery().f.test(f, a), FieldQuery().f.test(f, b)))
    for op in ("==", "<", ">="):
        mk = {"==": lambda q, v: q == v, "<": lambda q, v: q < v, ">=": lambda q, v: q >= v}[op]
        out.append((f"time {op} instant in UTC / +05:30", mk(TimeQuery(), t_utc), mk(TimeQuery(), t_off)))
    for fa, fb in ((re.I, 2), (re.I | re.S, 18), (0, re.RegexFlag(0))):
        out.append((f"tag k search flags {fa!r} / {fb!r}", TagQuery().k.search("A", fa), TagQuery().k.search("A", fb)))
        out.append((f"measurement matches flags {fa!r} / {fb!r}", MeasurementQuery().matches("M", fa), MeasurementQuery().matches("M", fb)))
    out.append(("tag .k / ['k']", TagQuery().k == "a", TagQuery()["k"] == "a"))
    out.append(("field .f / ['f'] exists", FieldQuery().f.exists(), FieldQuery()["f"].exists()))
    out.append(("compound with 1 / 1.0", (FieldQuery().f == 1) & (TagQuery().k == "a"), (TagQuery().k == "a") & (FieldQuery().f == 1.0)))
    out.append(("negation of 1 / 1.0", ~(FieldQuery().f == 1), ~(FieldQuery().f == 1.0)))
    return out


def h_same_value(params):
    from tinyflux import Point

    import datetime as dt

    pairs = _same_value_pairs()
    i = choose("pair", len(pairs))
    name, q1, q2 = pairs[i]
    try:
        eq, eq2 = (q1 == q2), (q2 == q1)
    except Exception as e:
        fail(lambda: f"comparing [{name}] raised {type(e).__name__}: {e}")
    require(eq == eq2, lambda: f"[{name}]: q1 == q2 is {eq} but q2 == q1 is {eq2}")
    if eq:
        require(hash(q1) == hash(q2), lambda: f"[{name}]: the queries compare equal but their hashes differ ({hash(q1)} vs {hash(q2)})")
        require(len({q1, q2}) == 1 and q2 in {q1: 0}, lambda: f"[{name}]: equal queries are distinct members of a set / dict")
        t0 = dt.datetime(2021, 3, 4, 5, 6, 7, tzinfo=dt.timezone.utc)
        for p in (
            Point(time=t0, measurement="m", tags={"k": "a"}, fields={"f": 1}),
            Point(time=t0 + dt.timedelta(microseconds=1), measurement="M", tags={"k": "A"}, fields={"f": 0.0}),
            Point(time=t0 - dt.timedelta(seconds=1), measurement="n", tags={}, fields={"f": None}),
            Point(time=t0, measurement="m", tags={"k": None}, fields={"f": 2**53}),
            Point(time=t0, measurement="m", tags={"j": "a"}, fields={"g": -2}),
        ):
            r1, r2 = _ev(q1, p, name), _ev(q2, p, name)
            require(r1 == r2, lambda: f"[{name}]: equal queries evaluate to {r1} and {r2} on {show(p)}")
    if params.get("twin"):
        fail("reachability twin")


HARNESS = {"h_pair": h_pair, "h_commute": h_commute, "h_oppair": h_oppair, "h_same_value": h_same_value}


def obligations(tier):
    obs = []
    sh = shapes(tier)
    for q in sh:
        obs.append({"id": f"pair/{q_repr(q)}", "harness": "h_pair", "params": {"q": q, "tier": tier}, "budget_s": 120 if tier == "quick" else 900})
    for q in OPLEAVES:
        obs.append({"id": f"oppair/{q_repr(q)}", "harness": "h_oppair", "params": {"q": q}, "budget_s": 120})
    ops = REPS + [("and", REPS[0], REPS[1]), ("or", REPS[1], REPS[2]), ("not", REPS[2]), ("and", REPS[3], REPS[4]), ("noop", "tag")]
    for a, b in itertools.product(ops, ops):
        obs.append({"id": f"commute/{q_repr(a)}/{q_repr(b)}", "harness": "h_commute", "params": {"a": a, "b": b}, "budget_s": 60})
    obs.append({"id": "same-value/written-differently", "harness": "h_same_value", "params": {}, "budget_s": 60})
    obs.append({"id": "twin/same-value", "harness": "h_same_value", "params": {"twin": True}, "budget_s": 60})
    obs.append({"id": "twin/pair", "harness": "h_pair", "params": {"q": LEAVES[12], "tier": tier, "twin": True}, "budget_s": 60})
    obs.append({"id": "twin/commute", "harness": "h_commute", "params": {"a": REPS[0], "b": REPS[1], "twin": True}, "budget_s": 60})
    for hname in ("h_str_rhs", "h_meas_rhs", "h_regex_flags"):
        obs.append({"id": f"crosshair/{hname}", "engine": "ch", "harness": hname, "params": {}, "budget_s": 100 if tier == "quick" else 600})
    return obs


def replay(body):
    if body.get("engine") == "ch":
        import sys

        from .. import chdrv

        return chdrv.replay_body(sys.modules[__name__], body)
    params = dict(body["params"] or {})
    return lpe.ConcreteEngine(body["inputs"] or {}).run(lambda: HARNESS[body["harness"]](params))
