"""C04 - after every completed operation the CSV file alone holds the current contents.

All symbolic variables are finite selectors (configuration, content, skeleton): exhausting
the decision tree == enumerating the product; the solver contributes bookkeeping only.
The C csv module and the codecs are executed, not modelled.
"""
import csv
import os

from .. import files, lpe
from ..hist import SYM, apply_op, run_path
from ..lpe import choose, fail, require, show, sym_bool
from ..model import MP
from . import histcommon as hc

PROP = "C04"
FUNCTIONS_ENCODED = [
    "tinyflux.storages.CSVStorage.__init__/append/_write/reset/_init_temp_storage/_swap_temp_with_primary/_cleanup_temp_storage/close/__iter__",
    "tinyflux.database.TinyFlux._insert_helper/_update_helper/_remove_helper/_reset_database/get/contains/close",
    "tinyflux.point.Point._serialize_to_list/_deserialize_from_list",
    "C modules _csv and the text codecs (executed on real files, not encoded)",
]
TRUSTED = ["vf.lpe (selector enumeration)", "vf.model", "independent reader: builtins.open + csv.reader + Point._deserialize_from_list"]
ASSUMPTIONS = [
    "configurations: access_mode r+ (default) and w+; flush_on_insert in {True, False}; encoding in {default, utf-8, utf-16, latin-1}; csv kwargs in {none, "
    "delimiter=';', quoting=QUOTE_ALL, quotechar=\"'\", lineterminator='\\n'}; compact key prefixes per insert",
    "contents: tag values / measurements from {'a', '', 'x,y', 'q\"q', \"s'q\", 'l\\nm', 'r\\rs', 'c\\r\\nd', 'é', ' sp ', ';', 'p\\n\\nq' (an empty physical line inside a quoted cell), 'u\\r\\n \\r\\nv' (a blank one)}; field values in "
    "{1, -0.5, None, 0}; times 0.5 s apart; other strings are outside the claim (C05 decides the row codec for all strings)",
    "histories: {ins,ins}, {ins,get(early stop),ins}, {ins,ins,update}, {ins,ins,remove}, {ins,ins,remove_all,ins}, "
    "{ins,contains,insert_multiple}, {ins,ins,update(no change),remove(no match)}, {ins,ins,ins,update,remove,update} (two rewrites)",
    "with flush_on_insert=True the file is decoded after EVERY call; with False after close() only (as the property states)",
    "every variable is a finite selector: exhaustion == enumeration",
]
BOUNDS = {"points": 3}
KF_CR = "KF-C04-lineterminator-without-CR"
ENCODINGS = [None, "utf-8", "utf-16", "latin-1"]
KF_SKIP = "KF-C04-skipinitialspace-strips-leading-blanks"
DIALECTS = [{}, {"delimiter": ";"}, {"quoting": csv.QUOTE_ALL}, {"quotechar": "'"}, {"lineterminator": "\n"}, {"skipinitialspace": True}, {"escapechar": "\\", "doublequote": False}]
STRS = ["a", "", "x,y", 'q"q', "s'q", "l\nm", "r\rs", "c\r\nd", "é", " sp ", ";", "p\n\nq", "u\r\n \r\nv"]
FVALS = [1, -0.5, None, 0]
SKELETONS = {
    "ins2": ["ins", "ins"],
    "get": ["ins", "get", "ins"],
    "update": ["ins", "ins", "upd"],
    "remove": ["ins", "ins", "rm"],
    "remove_all": ["ins", "ins", "rmall", "ins"],
    "insert_multiple": ["ins", "contains", "insm"],
    "noops": ["ins", "ins", "upd_nochange", "rm_nomatch"],
    # the row with the symbolic content survives two successive rewrites of the file
    "two_rewrites": ["ins", "ins", "ins", "upd", "rm_last", "upd_again"],
    # a single (possibly still buffered) row, then everything removed, then more data / close
    "remove_all_one": ["ins", "rmall", "ins"],
    "remove_all_close": ["ins", "rmall"],
    "remove_everything_one": ["ins", "rm_every", "ins"],
    # a file larger than one read-ahead chunk (8 KiB), a read that stops at the first row, then writes
    "big_get_ins": ["big", "get", "ins", "contains", "ins"],
    "big_get_upd": ["big", "get", "upd"],
}


def h_file(params):
    skel = SKELETONS[params["skeleton"]]
    enc = ENCODINGS[params["enc"]] if "enc" in params else None
    dia = DIALECTS[params["dialect"]] if "dialect" in params else {}

    def body(h):
        pass

    flush = None

    def run():
        from tinyflux import Point, TagQuery, TinyFlux

        nonlocal flush
        flush = sym_bool("flush")
        kwargs = dict(dia)
        if params.get("access_mode"):
            kwargs["access_mode"] = params["access_mode"]
        kwargs["flush_on_insert"] = flush
        if enc is not None:
            kwargs["encoding"] = enc
        cfg = {"storage": "csv", "auto_index": params.get("ai", True), "csv_kwargs": kwargs, "csv_times": 3}

        def inner(h):
            nins = [0]

            def check(what):
                pts, why = files.decode_file(h.path, enc, dia)
                require(pts is not None, lambda: f"after {what}: file {why}")
                h.req_points(pts, h.model.pts, f"file contents after {what}")

            s1 = STRS[choose("s1", len(STRS))]
            s2 = STRS[choose("s2", len(STRS))] if params.get("two") else "a"
            compact = bool(sym_bool("compact"))
            if KF_CR in params.get("exclude", []) and dia.get("lineterminator") == "\n" and ("r\rs" in (s1, s2)):
                raise lpe.Infeasible()  # known finding excluded: see known_findings.json
            if KF_SKIP in params.get("exclude", []) and dia.get("skipinitialspace") and (" sp " in (s1, s2)):
                raise lpe.Infeasible()  # known finding excluded: see known_findings.json

            def pspec():
                i = nins[0]
                nins[0] += 1
                return {
                    "time": 1_600_000_000_000_000 + i * 500_000,
                    "meas": (s1 or "m") if i == 1 else "m",
                    "tags": {"k": s1 if i == 0 else (s2 if i == 1 else "a"), "j": None if i == 0 else "x"},
                    "fields": {"f": FVALS[i % len(FVALS)] if i != 1 else 2},
                }

            for step, op in enumerate(skel):
                if op == "ins":
                    apply_op(h, ("ins", pspec(), None, None, compact and nins[0] != 1))
                elif op == "insm":
                    apply_op(h, ("insm", [pspec(), pspec()]))
                elif op == "big":
                    first = pspec()
                    rows = [first] + [{"time": 1_600_000_000_000_000 + (10 + i) * 500_000, "meas": "m", "tags": {"k": "filler-row-%03d" % i, "j": "x"}, "fields": {"f": i}} for i in range(150)]
                    apply_op(h, ("insm", rows))
                elif op == "get":
                    g = h.db.get(TagQuery().j == None)  # noqa: E711  stops at the first row
                    require(g is not None, lambda: "get returned None")
                elif op == "contains":
                    require(h.db.contains(TagQuery().j.exists()), lambda: "contains returned False")
                elif op == "upd":
                    apply_op(h, ("upd", ("tag", "j", "==", "x"), {"fields": {"g": 5}, "tags": {"k": s2 if params.get("two") else s1}}))
                elif op == "upd_nochange":
                    apply_op(h, ("upd", ("tag", "j", "==", "x"), {"fields": {"f": 2}}))
                elif op == "rm":
                    apply_op(h, ("rm", ("tag", "j", "==", None)))
                elif op == "rm_every":
                    apply_op(h, ("rm", ("tag_exists", "k")))
                elif op == "rm_last":
                    apply_op(h, ("rm", ("field", "f", "==", 0)))
                elif op == "upd_again":
                    apply_op(h, ("upd", ("tag", "j", "==", "x"), {"fields": {"g": 6}}))
                elif op == "rm_nomatch":
                    apply_op(h, ("rm", ("tag", "j", "==", "zz")))
                elif op == "rmall":
                    apply_op(h, ("rmall",))
                if flush:
                    check(f"step {step} ({op})")
            h.db.close()
            check("close()")
            db2 = TinyFlux(h.path, **dict({k: v for k, v in kwargs.items() if k != "flush_on_insert"}, access_mode="r"))
            try:
                h.req_points(db2.all(sorted=False), h.model.pts, "contents seen by a fresh TinyFlux(path, access_mode='r')")
                require(len(db2) == len(h.model.pts), lambda: f"len of reopened db {len(db2)}")
            finally:
                db2.close()
            if params.get("twin"):
                fail("reachability twin")

        run_path(cfg, inner)

    run()


HARNESS = {"h_file": h_file}


def classify(ob, res):
    inp = res.get("inputs") or {}
    p = ob["params"]
    strs = {STRS[inp[k]] for k in ("s1", "s2") if k in inp}
    if DIALECTS[p.get("dialect", 0)].get("lineterminator") == "\n" and "r\rs" in strs:
        return KF_CR
    if DIALECTS[p.get("dialect", 0)].get("skipinitialspace") and " sp " in strs:
        return KF_SKIP
    return None


def obligations(tier):
    obs = []
    for sk in SKELETONS:
        big = sk.startswith("big_")
        for e in range(len(ENCODINGS)):
            for d in range(len(DIALECTS)):
                if d >= 5 and ENCODINGS[e] not in (None, "utf-16"):
                    continue  # the two reader-side options: default and one multi-byte encoding
                if big and (ENCODINGS[e] not in (None, "utf-16") or d > 1):
                    continue  # 150-row files: two encodings x two dialects are enough for the buffer-boundary behaviour
                for ai in (True, False):
                    obs.append({"id": f"{sk}/enc-{ENCODINGS[e]}/dialect-{d}/{'ai' if ai else 'noai'}", "harness": "h_file", "params": {"skeleton": sk, "enc": e, "dialect": d, "ai": ai, "two": not big}, "budget_s": 120 if tier == "quick" else 600})
    # a database created with access_mode='w+' (read/write, truncating on open): rewrites must not lose the data
    for sk in ("update", "remove", "two_rewrites", "remove_all", "noops", "get"):
        for d in (0, 1):
            for ai in (True, False):
                obs.append({"id": f"mode-w+/{sk}/dialect-{d}/{'ai' if ai else 'noai'}", "harness": "h_file", "params": {"skeleton": sk, "enc": 0, "dialect": d, "ai": ai, "two": False, "access_mode": "w+"}, "budget_s": 120})
    obs.append({"id": "twin/file", "harness": "h_file", "params": {"skeleton": "update", "enc": 1, "dialect": 0, "twin": True}, "budget_s": 60})
    return obs
