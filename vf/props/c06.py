"""C06 - a valid index is always equivalent to one rebuilt from storage.

Family (II): every skeleton of operations up to a depth bound over the operation alphabet
is run from an empty database with symbolic data; after EVERY step, if the index reports
itself valid, its canonical form must equal Index().build(storage) (INV), and the
validity protocol must hold (non-decreasing insert keeps it valid with auto_index on,
every read leaves it valid).  Family (I): one Index-level step (insert / remove+update
as _remove_helper issues them) from an arbitrary built index vs a rebuild.
"""
import itertools

from .. import lpe
from ..hist import SYM, H, run_path
from ..lpe import assume, choose, fail, require, show, sym_int
from ..model import q_repr
from . import histcommon as hc
from .c01 import A, A2, B, C, OP, pspec

PROP = "C06"
FUNCTIONS_ENCODED = [
    "tinyflux.index.Index.build/insert/remove/update/_reset/invalidate/_insert_*/_remove_*/_update_*/latest_time/empty",
    "tinyflux.database.read_op (auto reindex), _insert_helper (order check, invalidation), _remove_helper, _reset_database, _update_helper, reindex",
    "every read op on the resulting index (C01 machinery)",
]
TRUSTED = hc.TRUSTED + ["INV = canonical-form equality with Index().build(storage); equal timestamps may be ordered differently"]
ASSUMPTIONS = hc.COMMON_ASSUMPTIONS + [
    "bounds: all skeletons of depth <= 4 (quick) / 5 (thorough) over {insert, insert of a point without time (stamped by the symbolic clock), insert_multiple(2), remove(tag==a), remove(time<x), "
    "remove_all, drop_measurement, update(tag==a, field), read, all(), reindex}, each started after 1-2 symbolic inserts; "
    "auto_index on and off",
    "family (I): pre-state = Index().build of <= 4 symbolic points, removal set = every subset (selector)",
    "outside the claim: deeper histories, 'plus long random sequences' of the property text (random sampling is not part of this technique)",
]
BOUNDS = {"quick": {"depth": 4}, "thorough": {"depth": 5}}

OPS = {
    "ins": ("ins",),
    "ins_notime": ("ins_notime",),
    "insm": ("insm", 2),
    "rm_tag": ("rm", ("tag", "k", "==", "a")),
    "rm_time": ("rm", ("time", "<", SYM)),
    "rm_notfield": ("rm", ("not", ("field", "f", "<", SYM))),
    "rmall": ("rmall",),
    "drop": ("drop", "n"),
    "upd": ("upd", ("tag", "k", "==", "a"), {"fields": {"f": SYM}}),
    "upd_time": ("upd", ("tag", "k", "==", "a"), {"time": ("static", SYM)}),
    "upd_fail": ("upd_fail", ("tag", "k", "!=", "zz"), "fields"),
    "insm_fail": ("insm_fail", 1),
    "read": ("read", ("time", ">=", SYM)),
    "all": ("all",),
    "reindex": ("reindex",),
}


def h_index_step(params):
    """Family (I): Index.remove + Index.update exactly as _remove_helper issues them,
    from an arbitrary built index, compared with a rebuild of the surviving points."""
    from tinyflux import Point
    from tinyflux.index import Index

    from .. import symtime

    n = params["n"]
    symtime.CLOCK.reset()
    lpe.HASH_OK[0] = True
    if lpe.is_symbolic():
        symtime.install()
    try:
        h = H({"storage": "mem"})
        pts = []
        for i in range(n):
            p, mp = h.mk_point(pspec(i, set(params.get("also", ["tag"])), "sym", "sel"))
            pts.append(p)
        idx = Index()
        if params.get("via_insert"):
            # incremental construction requires non-decreasing times
            for i in range(n - 1):
                assume(symtime.us_of(pts[i].time) <= symtime.us_of(pts[i + 1].time))
            for p in pts:
                idx.insert([p])
        else:
            idx.build(pts)
        rm = {i for i in range(n) if lpe.sym_bool(f"rm{i}")}
        keep = [i for i in range(n) if i not in rm]
        for name in ("remove", "update", "_reset", "build", "insert"):
            if not callable(getattr(idx, name, None)):
                # this family drives Index's maintenance methods directly, the way _remove_helper
                # does; if they no longer exist in this form only the database-level family applies
                raise lpe.Inconclusive(f"Index.{name} not available: index maintenance API refactored")
        if rm and keep:
            upd = {old: new for new, old in enumerate(keep) if old != new}
            idx.remove(set(rm))
            idx.update(upd)
        elif rm:
            idx._reset()
        ref = Index()
        ref.build([pts[i] for i in keep])

        class _DB:  # minimal facade for H.check_inv
            pass

        _compare(idx, ref, f"after removing {sorted(rm)} of {n}")
        if params.get("then_insert") and keep:
            q, mq = h.mk_point(pspec(9, {"tag", "field", "meas"}, "sym", "sel"))
            assume(symtime.us_of(q.time) >= symtime.us_of(idx.latest_time))
            idx.insert([q])
            ref2 = Index()
            ref2.build([pts[i] for i in keep] + [q])
            _compare(idx, ref2, "after insert following the removal")
        if params.get("twin"):
            fail("reachability twin")
    finally:
        lpe.HASH_OK[0] = False
        symtime.uninstall()


def _compare(idx, ref, what, h=None):
    from ..model import veq

    structural = ("_num_items", "_timestamps", "_storage_pos_sorted_by_ts", "_measurements", "_tags", "_fields")
    if not all(hasattr(idx, a) and hasattr(ref, a) for a in structural):
        # the index keeps its data differently (refactored): compare the answers it gives
        from ..hist import _inv_observational

        class _Shim:
            db = ()

        _inv_observational(_Shim(), idx, ref, what, time_queries=False)
        return

    require(idx._num_items == ref._num_items and len(idx) == len(ref), lambda: f"INV {what}: _num_items {idx._num_items} vs {ref._num_items}")
    require(len(idx._timestamps) == len(ref._timestamps), lambda: f"INV {what}: timestamps {show(idx._timestamps)} vs {show(ref._timestamps)}")
    for a, b in zip(idx._timestamps, ref._timestamps):
        require(a == b, lambda: f"INV {what}: timestamps {show(idx._timestamps)} vs {show(ref._timestamps)}")
    require(sorted(idx._storage_pos_sorted_by_ts) == sorted(ref._storage_pos_sorted_by_ts), lambda: f"INV {what}: positions {idx._storage_pos_sorted_by_ts} vs {ref._storage_pos_sorted_by_ts}")
    m1 = dict(zip(idx._storage_pos_sorted_by_ts, idx._timestamps))
    m2 = dict(zip(ref._storage_pos_sorted_by_ts, ref._timestamps))
    for k in m2:
        require(m1[k] == m2[k], lambda: f"INV {what}: position {k}: {show(m1[k])} vs {show(m2[k])}")
    require({k: list(v) for k, v in idx._measurements.items()} == ref._measurements, lambda: f"INV {what}: _measurements {idx._measurements} vs {ref._measurements}")
    require({k: {a: list(b) for a, b in v.items()} for k, v in idx._tags.items()} == ref._tags, lambda: f"INV {what}: _tags {idx._tags} vs {ref._tags}")
    require(set(idx._fields) == set(ref._fields), lambda: f"INV {what}: field keys")
    for k in ref._fields:
        a, b = idx._fields[k], ref._fields[k]
        require([i for i, _ in a] == [i for i, _ in b], lambda: f"INV {what}: _fields[{k}] {show(a)} vs {show(b)}")
        for (i, x), (_, y) in zip(a, b):
            require(veq(x, y), lambda: f"INV {what}: _fields[{k}][{i}] {show(x)} vs {show(y)}")
    require(idx.valid == ref.valid, lambda: f"INV {what}: valid flag")
    require(idx.empty == ref.empty, lambda: f"INV {what}: empty")


def h_xval(params):
    """The cross-validation scenario of c06_ch.py under the lean engine."""
    from tinyflux import Point, TagQuery, TimeQuery, TinyFlux
    from tinyflux.storages import MemoryStorage

    from .. import symtime
    from ..symtime import SymTime

    TAGS = [{}, {"k": "a"}, {"k": "b"}]
    symtime.CLOCK.reset()
    lpe.HASH_OK[0] = True
    if lpe.is_symbolic():
        symtime.install()
    try:
        ts = [sym_int(f"t{i}") for i in range(3)]
        x = sym_int("x")
        ss = [choose(f"s{i}", 3) for i in range(3)]
        valid = lpe.sym_bool("valid")
        ai = lpe.sym_bool("ai")
        mk = (lambda us: SymTime(us, 0)) if lpe.is_symbolic() else symtime.mk_time
        pts = [Point(time=mk(ts[i]), measurement="m", tags=dict(TAGS[ss[i]])) for i in range(3)]
        db = TinyFlux(storage=MemoryStorage, auto_index=ai)
        db._storage._memory = list(pts)
        if valid:
            db._index.build(pts)
        else:
            db._index.invalidate()
        n = db.remove(TagQuery().k == "a")
        keep = [i for i in range(3) if ss[i] != 1]
        require(n == 3 - len(keep), lambda: f"remove returned {n}")
        got = db.count(TimeQuery() >= mk(x))
        exp = 0
        for i in keep:
            if ts[i] >= x:
                exp += 1
        require(got == exp, lambda: f"count {got}, expected {exp}")
    finally:
        lpe.HASH_OK[0] = False
        symtime.uninstall()


HARNESS = {"h_inv": hc.h_inv, "h_index_step": h_index_step, "h_xval": h_xval}


def crosscheck(results):
    """lean engine vs CrossHair on the shared obligation: same verdict; path counts side by side."""
    by = {r["id"]: r for r in results}
    a, b = by.get("xval/lpe"), by.get("xval/crosshair")
    if not a:
        return None, []
    info = {"obligation": "3 symbolic points in MemoryStorage, built/invalid index, remove(tag k=='a'), count(TimeQuery() >= x) vs model", "lpe": {"verdict": a["verdict"], "paths": a.get("paths"), "smt_queries": a.get("queries"), "wall_s": a.get("ob_wall_s")}}
    errs = []
    if b:
        info["crosshair"] = {"verdict": b["verdict"], "paths": b.get("paths"), "smt_queries": b.get("queries"), "wall_s": b.get("ob_wall_s")}
        if b["verdict"] in ("holds", "cex") and a["verdict"] in ("holds", "cex") and a["verdict"] != b["verdict"]:
            errs.append(f"engines disagree on the shared obligation: lpe {a['verdict']} vs CrossHair {b['verdict']}")
        if a["verdict"] == b["verdict"] == "holds" and a.get("paths") and b.get("paths"):
            info["path_count_ratio"] = round(a["paths"] / b["paths"], 4)
    else:
        info["crosshair"] = "thorough tier only (about 180-300 CPU-s)"
    return info, errs


def replay(body):
    if body.get("engine") == "ch":
        import sys

        from .. import chdrv

        return chdrv.replay_body(sys.modules[__name__], body)
    from ..run import _shift_to_real_clock

    params = dict(body["params"] or {})
    return lpe.ConcreteEngine(_shift_to_real_clock(body["inputs"] or {})).run(lambda: HARNESS[body["harness"]](params))


def _ob(oid, ops, ai, budget=60, **kw):
    p = {"ops": ops, "ai": ai, "alpha": "sel", "also": kw.pop("also", []), "torder": "sym"}
    p.update(kw)
    return {"id": oid, "harness": "h_inv", "params": p, "budget_s": budget}


def obligations(tier):
    th = tier == "thorough"
    obs = []
    names = list(OPS)
    mut = [n for n in names if n not in ("read", "all", "reindex")]
    names_d2 = names
    depth = 2 if not th else 3
    seqs = []
    for d in range(1, depth + 1):
        for s in itertools.product(names, repeat=d):
            if d >= 2 and not any(x in mut for x in s):
                continue
            seqs.append(s)
    npts = {"ins": 1, "ins_notime": 1, "insm": 2, "insm_fail": 1}
    for ai in (True, False):
        for s in seqs:
            if len(s) >= 3 and 1 + sum(npts.get(x, 0) for x in s) > 4:
                continue  # more than 4 points: 541+ time orderings per skeleton; covered by the hand-picked deep skeletons
            # thorough: depth 3 with fixed tags; depth <= 2 additionally with symbolic tags/measurements and two pre-inserts
            rich = th and len(s) == 1
            also = ["tag", "meas"] if rich else []
            if any(x in ("rm_notfield",) for x in s):
                also.append("field")
            pre = ["ins", "ins"] if rich else ["ins"]
            ops = [OPS[x] for x in pre] + [OPS[x] for x in s]
            obs.append(_ob(f"hist/{'ai' if ai else 'noai'}/{','.join(pre)},{','.join(s)}", ops, ai, also=also, budget=120 if not th else 600))
    # a few deeper, hand-picked skeletons around the known weak spots
    deep = [
        ("ins", "ins", "ins", "rm_tag", "ins", "read"),
        ("ins", "ins", "rmall", "ins", "ins", "rm_time"),
        ("ins", "insm", "rm_time", "ins", "read"),
        ("ins", "ins", "upd_time", "ins", "rm_tag"),
        ("ins", "ins", "ins", "drop", "ins", "upd"),
        ("ins", "read", "ins", "rm_tag", "reindex", "ins"),
    ]
    for ai in (True, False):
        for s in deep:
            obs.append(_ob(f"deep/{'ai' if ai else 'noai'}/{','.join(s)}", [OPS[x] for x in s], ai, also=["tag"] if th else [], budget=300 if not th else 900))
    for n in (1, 2, 3) + ((4,) if th else ()):
        for via in (False, True):
            obs.append({"id": f"step/remove/n{n}/{'insert-built' if via else 'build'}", "harness": "h_index_step", "params": {"n": n, "via_insert": via, "then_insert": True}, "budget_s": 120 if not th else 900})
    # cross-validation of the lean engine against CrossHair on one database-level obligation
    obs.append({"id": "xval/lpe", "harness": "h_xval", "params": {}, "budget_s": 300})
    if th:
        obs.append({"id": "xval/crosshair", "engine": "ch", "harness": "h_xval", "params": {}, "budget_s": 1500, "per_path_s": 60})
    obs.append(_ob("twin/hist", [OPS["ins"], OPS["ins"], OPS["rm_tag"]], True, twin=True))
    obs.append({"id": "twin/step", "harness": "h_index_step", "params": {"n": 2, "twin": True}, "budget_s": 60})
    return obs
