"""C15 - reads and no-op writes change nothing and leave nothing behind.

Finite selectors only (operation, access mode, history): exhaustion == enumeration.
Real files; the private temp directory and the database directory are listed before and
after every call, the database file is compared byte for byte.
"""
import os
import tempfile

from .. import files, lpe
from ..hist import SYM, apply_op, run_path
from ..lpe import choose, fail, require, show, sym_bool
from ..symtime import mk_time

PROP = "C15"
FUNCTIONS_ENCODED = [
    "tinyflux.database read_op/write_op/append_op/temp_storage_op decorators and every public TinyFlux / Measurement operation",
    "tinyflux.storages.CSVStorage can_read/can_write/can_append, _init_temp_storage/_cleanup_temp_storage/_swap_temp_with_primary, __iter__/__len__",
]
TRUSTED = ["vf.lpe (selector enumeration)", "builtins.open / os.walk as the observer"]
ASSUMPTIONS = [
    "history: 3 inserted points (2 measurements, tags, fields), then ONE operation from the menu of 40 reads / getters / "
    "iteration / reindex / no-op writes (remove with no match, update that changes nothing, update matching nothing, "
    "drop of an absent measurement, Measurement.* equivalents), repeated twice",
    "access modes r+ (default), r, a, w+ for the operation under test (the database is reopened in that mode)",
    "asserted: file bytes identical before/after; directory listings of the database directory and of the private temp "
    "directory identical before/after (also when the call raises); writes in mode 'r' raise; also after real writes "
    "(insert/update/remove that change data) no temporary file is left behind",
    "finite selectors: exhaustion == enumeration",
]
BOUNDS = {"points": 3}

T0 = 1_600_000_000_000_000


def _ops():
    from tinyflux import FieldQuery, MeasurementQuery, TagQuery, TimeQuery

    qa = TagQuery().k == "a"
    qn = TagQuery().k == "nomatch"
    ops = {
        "all": lambda db: db.all(),
        "all_unsorted": lambda db: db.all(sorted=False),
        "iter": lambda db: list(db),
        "len": lambda db: len(db),
        "repr": lambda db: repr(db),
        "search": lambda db: db.search(qa),
        "search_time": lambda db: db.search(TimeQuery() >= mk_time(T0)),
        "search_notfield": lambda db: db.search(~(FieldQuery().f > 0)),
        "count": lambda db: db.count(qa),
        "contains": lambda db: db.contains(qa),
        "contains_none": lambda db: db.contains(qn),
        "get": lambda db: db.get(qa),
        "get_none": lambda db: db.get(qn),
        "select": lambda db: db.select(("time", "tags.k"), qa),
        "get_measurements": lambda db: db.get_measurements(),
        "get_tag_keys": lambda db: db.get_tag_keys(),
        "get_tag_values": lambda db: db.get_tag_values(["k"], "m"),
        "get_field_keys": lambda db: db.get_field_keys("m"),
        "get_field_values": lambda db: db.get_field_values("f"),
        "get_timestamps": lambda db: db.get_timestamps(),
        "reindex": lambda db: db.reindex(),
        "m.all": lambda db: db.measurement("m").all(),
        "m.len": lambda db: len(db.measurement("m")),
        "m.iter": lambda db: list(db.measurement("n")),
        "m.search": lambda db: db.measurement("m").search(qa),
        "m.count": lambda db: db.measurement("zz").count(qa),
        "m.get_field_values": lambda db: db.measurement("m").get_field_values("f"),
        "m.get_timestamps": lambda db: db.measurement("m").get_timestamps(),
    }
    noop_writes = {
        "remove_nomatch": lambda db: db.remove(qn),
        "remove_nomatch_filter": lambda db: db.remove(qa, "zz"),
        "remove_time_nomatch": lambda db: db.remove(TimeQuery() < mk_time(T0 - 10**9)),
        # queries the index can only answer with candidates (here: every position): nothing matches
        "remove_notfield_nomatch": lambda db: db.remove(~(FieldQuery().f.exists())),
        "remove_notfield_and_nomatch": lambda db: db.remove((TagQuery().j == "x") & ~(FieldQuery().f.exists())),
        "remove_map_nomatch": lambda db: db.remove(TagQuery().map(lambda t: len(t)) == 0),
        "m.remove_notfield_nomatch": lambda db: db.measurement("m").remove(~(FieldQuery().f.exists())),
        "update_notfield_nomatch": lambda db: db.update(~(FieldQuery().f.exists()), tags={"k": "b"}),
        "update_nomatch": lambda db: db.update(qn, tags={"k": "b"}),
        "update_nochange": lambda db: db.update(qa, tags={"k": "a"}),
        "update_nochange_fields": lambda db: db.update(MeasurementQuery() == "m", fields={"f": 1}),
        "update_unset_absent": lambda db: db.update(qa, unset_tags="zz"),
        "update_all_nochange": lambda db: db.update_all(unset_fields=["zz"]),
        "drop_absent": lambda db: db.drop_measurement("zz"),
        "m.remove_nomatch": lambda db: db.measurement("m").remove(qn),
        "m.remove_absent": lambda db: db.measurement("zz").remove(qa),
        "m.update_absent": lambda db: db.measurement("zz").update(qa, tags={"k": "b"}),
        "m.update_all_absent": lambda db: db.measurement("zz").update_all(fields={"f": 2}),
        "remove_filter_absent": lambda db: db.remove(qa, "zz"),
        "m.remove_all_absent": lambda db: db.measurement("zz").remove_all(),
        "m.update_nochange": lambda db: db.measurement("m").update(qa, fields={"f": 1}),
    }
    real_writes = {
        "insert": lambda db: db.insert(_pt(5)),
        "insert_multiple": lambda db: db.insert_multiple([_pt(6), _pt(7)]),
        "remove": lambda db: db.remove(qa),
        "remove_all_matching": lambda db: db.remove(TagQuery().k.exists()),
        "update": lambda db: db.update(qa, fields={"f": 9}),
        "update_all": lambda db: db.update_all(tags={"z": "1"}),
        "drop": lambda db: db.drop_measurement("n"),
        "remove_all": lambda db: db.remove_all(),
        "update_raising": lambda db: db.update(qa, tags=lambda t: 1 / 0),
        "update_invalid": lambda db: db.update(qa, fields={"f": "x"}),
    }
    return ops, noop_writes, real_writes


def _pt(i):
    from tinyflux import Point

    return Point(time=mk_time(T0 + i * 500_000), measurement="mn"[i % 2], tags={"k": "ab"[i % 2], "j": "x"}, fields={"f": 1 if i % 2 == 0 else None})


MODES = ["r+", "r", "a", "w+"]
NEEDS = {"read": ("r+", "r", "w+"), "write": ("r+", "w+"), "append": ("r+", "a", "w+")}


def h_sidefx(params):
    from tinyflux import TinyFlux

    group = params["group"]
    ops, noop_writes, real_writes = _ops()
    table = {"read": ops, "noop": noop_writes, "write": real_writes}[group]
    names = sorted(table)
    mode = MODES[params["mode"]]

    def body(h):
        name = names[choose("op", len(names))]
        fn = table[name]
        rows = params.get("rows", 3)
        for i in range(rows):
            h.db.insert(_pt(i))
        h.db.close()
        if mode == "w+":
            # w+ truncates on open: re-create the contents through the w+ handle
            db = TinyFlux(h.path, access_mode="w+", auto_index=h.ai)
            for i in range(rows):
                db.insert(_pt(i))
        else:
            # a non-empty append-only database cannot be indexed (reading is not permitted)
            db = TinyFlux(h.path, access_mode=mode, auto_index=h.ai and mode != "a")
        h.db = db
        # an earlier real write (index maintenance, rewritten file, reopened handle) before the call under test
        pre = choose("pre", 6)
        if pre and mode in ("r+", "w+"):
            from tinyflux import TagQuery

            [None, lambda: db.remove(TagQuery().k == "b"), lambda: db.update(TagQuery().k == "b", fields={"f": 3}), lambda: db.drop_measurement("n"), lambda: db.insert(_pt(4)), lambda: (db.get(TagQuery().k == "a"), db.insert(_pt(4)))][pre]()
        elif pre:
            raise lpe.Infeasible()
        tmpdir = tempfile.gettempdir()
        dbdir = os.path.dirname(h.path)
        for rep in range(2):
            before = files.read_bytes(h.path)
            ls0 = (files.listing(tmpdir), [f for f in os.listdir(dbdir) if f != "tmp"])
            raised = None
            try:
                fn(db)
            except Exception as e:
                raised = e
            # flush whatever a legitimate write buffered (flush_on_insert is on by default)
            after = files.read_bytes(h.path)
            ls1 = (files.listing(tmpdir), [f for f in os.listdir(dbdir) if f != "tmp"])
            require(ls0 == ls1, lambda: f"{name} (mode {mode}, call {rep + 1}, {'raised ' + type(raised).__name__ if raised else 'returned'}): files left behind: temp dir {ls0[0]} -> {ls1[0]}, db dir {ls0[1]} -> {ls1[1]}")
            if group in ("read", "noop"):
                require(before == after, lambda: f"{name} (mode {mode}) changed the database file: {before!r} -> {after!r}")
            needs_write = group in ("noop", "write") and name not in ("insert", "insert_multiple")
            if mode == "r" and group in ("noop", "write"):
                require(raised is not None, lambda: f"{name}: write attempted on a read-only database did not raise")
                require(before == after, lambda: f"{name}: write on a read-only database changed the file")
            elif group in ("read", "noop") and not (mode == "a"):
                require(raised is None, lambda: f"{name} (mode {mode}) raised {type(raised).__name__}: {raised}")
        if params.get("twin"):
            fail("reachability twin")

    run_path({"storage": "csv", "auto_index": params.get("ai", True)}, body)


HARNESS = {"h_sidefx": h_sidefx}


def obligations(tier):
    obs = []
    for group in ("read", "noop", "write"):
        for mode in range(len(MODES)):
            for ai in (True, False):
                obs.append({"id": f"{group}/mode-{MODES[mode]}/{'ai' if ai else 'noai'}", "harness": "h_sidefx", "params": {"group": group, "mode": mode, "ai": ai}, "budget_s": 120})
    if tier == "thorough":
        # the empty database, one row, and nine rows (positions >= 8)
        for rows in (0, 1, 9):
            for group in ("read", "noop", "write"):
                for mode in range(len(MODES)):
                    for ai in (True, False):
                        obs.append({"id": f"{group}/mode-{MODES[mode]}/{'ai' if ai else 'noai'}/rows{rows}", "harness": "h_sidefx", "params": {"group": group, "mode": mode, "ai": ai, "rows": rows}, "budget_s": 300})
    obs.append({"id": "twin/sidefx", "harness": "h_sidefx", "params": {"group": "noop", "mode": 0, "ai": True, "twin": True}, "budget_s": 60})
    return obs
