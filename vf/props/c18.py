"""C18 - sorted-list search helpers return the documented boundary positions.

Two engines on the same five functions: the lean path engine (list length enumerated,
elements and probe unbounded symbolic ints, sortedness assumed) and CrossHair
(List[int] / List[float] with len <= bound).  Verdicts must agree (cross-validation of
the lean engine against the reference engine).
"""
from .. import lpe
from ..lpe import assume, choose, require, show, sym_dyadic, sym_int

PROP = "C18"
FUNCTIONS_ENCODED = ["tinyflux.utils.find_eq", "find_lt", "find_le", "find_gt", "find_ge", "bisect.bisect_left/right (C, reached through rich comparisons of the proxies)"]
TRUSTED = ["z3", "vf.lpe proxies/search", "CrossHair 0.0.110 proxies and path bookkeeping"]
ASSUMPTIONS = [
    "lists are sorted ascending (the helpers' documented precondition); duplicates allowed",
    "bounds: list length <= 7 (quick) / <= 9 (thorough); element and probe domain: all integers (lpe and CrossHair), "
    "all non-NaN reals as modelled by CrossHair for List[float] (NaN excluded: a list containing NaN is not sorted)",
    "float family (lpe): elements and probe are k/2**40 with |k| < 2**53 (exact doubles), list length <= 4 (quick) / <= 6 (thorough); "
    "round(x, nd) inside a helper is modelled as the nearest multiple of 10**-nd over the reals, +/- with real arithmetic; candidates are "
    "replayed on concrete doubles (a non-reproducing one is inconclusive)",
    "longer lists are outside the claim",
]
BOUNDS = {"quick": {"len": 7}, "thorough": {"len": 9}}

FNS = ("find_eq", "find_lt", "find_le", "find_gt", "find_ge")


def spec_ok(name, l, x, r):
    """Documented characterisation, as a list of (condition, message)."""
    n = len(l)
    if name == "find_eq":
        hit = [i for i in range(n) if bool(l[i] == x)]
        return (r == (hit[0] if hit else None)), "leftmost position equal to the probe or None"
    if name == "find_lt":
        hit = [i for i in range(n) if bool(l[i] < x)]
        return (r == (hit[-1] if hit else None)), "rightmost position strictly below the probe or None"
    if name == "find_le":
        hit = [i for i in range(n) if bool(l[i] <= x)]
        return (r == (hit[-1] if hit else None)), "rightmost position not above the probe or None"
    if name == "find_gt":
        hit = [i for i in range(n) if bool(l[i] > x)]
        return (r == (hit[0] if hit else None)), "leftmost position strictly above the probe or None"
    hit = [i for i in range(n) if bool(l[i] >= x)]
    return (r == (hit[0] if hit else None)), "leftmost position not below the probe or None"


def h_find(params):
    from tinyflux import utils

    name = params["fn"]
    n = params["n"]
    l = [sym_int(f"l{i}") for i in range(n)]
    for i in range(n - 1):
        assume(l[i] <= l[i + 1])
    x = sym_int("x")
    try:
        r = getattr(utils, name)(list(l), x)
    except Exception as e:
        lpe.fail(f"{name} raised {type(e).__name__}: {e}")
    ok, what = spec_ok(name, l, x, r)
    require(ok, lambda: f"{name}({show(l)}, {show(x)}) returned {r!r}; documented: {what}")
    if params.get("twin"):
        lpe.fail("reachability twin")


def h_find_float(params):
    """Float lists and probes: every element is k / 2**40 with |k| < 2**53 (exact doubles, spacing
    about 9e-13, magnitudes up to 8192), so that helpers which round, truncate or compare with a
    tolerance are distinguished from exact comparison."""
    from tinyflux import utils

    name = params["fn"]
    n = params["n"]
    l = [sym_dyadic(f"l{i}") for i in range(n)]
    for i in range(n - 1):
        assume(l[i] <= l[i + 1])
    x = sym_dyadic("x")
    if params.get("member") is not None and n:
        assume(x == l[params["member"] % n])
    try:
        r = getattr(utils, name)(list(l), x)
    except lpe.EngineSignal:
        raise
    except Exception as e:
        lpe.fail(f"{name} raised {type(e).__name__}: {e}")
    ok, what = spec_ok(name, l, x, r)
    require(ok, lambda: f"{name}({show(l)}, {show(x)}) returned {r!r}; documented: {what}")
    if params.get("twin"):
        lpe.fail("reachability twin")


HARNESS = {"h_find": h_find, "h_find_float": h_find_float}


def obligations(tier):
    top = BOUNDS[tier]["len"]
    obs = []
    for fn in FNS:
        for n in range(top + 1):
            obs.append({"id": f"lpe/{fn}/len{n}", "harness": "h_find", "params": {"fn": fn, "n": n}, "budget_s": 120})
        obs.append({"id": f"crosshair-int/{fn}", "engine": "ch", "harness": f"h_{fn}_int", "params": {"maxlen": min(top, 7)}, "budget_s": 100 if tier == "quick" else 600})
        if tier == "thorough":
            obs.append({"id": f"crosshair-float/{fn}", "engine": "ch", "harness": f"h_{fn}_float", "params": {"maxlen": 4}, "budget_s": 600})
    for fn in FNS:
        for n in range(0, (4 if tier == "quick" else 6) + 1):
            obs.append({"id": f"lpe-float/{fn}/len{n}", "harness": "h_find_float", "params": {"fn": fn, "n": n}, "budget_s": 120})
    obs.append({"id": "twin/lpe-float", "harness": "h_find_float", "params": {"fn": "find_eq", "n": 2, "twin": True}, "budget_s": 30})
    obs.append({"id": "twin/lpe", "harness": "h_find", "params": {"fn": "find_le", "n": 3, "twin": True}, "budget_s": 30})
    obs.append({"id": "twin/crosshair", "engine": "ch", "harness": "h_twin", "params": {"maxlen": 3, "twin": True}, "budget_s": 30})
    return obs


def replay(body):
    if body.get("engine") == "ch":
        import sys

        from .. import chdrv

        return chdrv.replay_body(sys.modules[__name__], body)
    params = dict(body["params"] or {})
    return lpe.ConcreteEngine(body["inputs"] or {}).run(lambda: HARNESS[body["harness"]](params))
