"""CrossHair harness for C14: the offending value is a symbolic Union."""
from typing import Dict, List, Optional, Union

from ..chdrv import cap
from . import c14

EXCLUDE = set()
PARAMS = {}
Bad = Union[int, float, bool, bytes, None, str, List[int], Dict[str, int]]
# hashable non-str types only: the value becomes a dict key, and hashing a symbolic str makes
# CrossHair realise it (endless enumeration); str keys are valid anyway and are in the lpe battery
BadKey = Union[int, float, bool, bytes, None]


def _small(v):
    return not isinstance(v, (str, bytes, list, dict)) or len(v) <= 1


def _one(v):
    from tinyflux import Point, TinyFlux
    from tinyflux.storages import MemoryStorage

    # auto_index off: the index would hash tag values (realising symbolic strings)
    db = TinyFlux(storage=MemoryStorage, auto_index=False)
    db.insert(Point(time=c14.T0, measurement="m", tags={"k": "a"}, fields={"f": 1}))
    ok, msg = c14.check_one(db, PARAMS["entry"], PARAMS["slot"], v)
    if not ok:
        raise AssertionError(msg)
    return True


def h_union(v: Bad) -> bool:
    """
    pre: _small(v)
    post: _
    """
    return cap(_one, v)


def h_union_key(v: BadKey) -> bool:
    """
    pre: _small(v)
    post: _
    """
    return cap(_one, v)


def _false(v):
    _one(v)
    return False


def h_twin(v: Bad) -> bool:
    """
    pre: _small(v)
    post: _
    """
    return cap(_false, v)
