"""C03 - update changes exactly the matching points, with documented merge semantics."""
from ..hist import SYM
from ..model import q_repr
from . import histcommon as hc
from .c01 import A, A2, B, B2, C, CONFIGS, D, M, OP, _split, attrs

PROP = "C03"
FUNCTIONS_ENCODED = [
    "tinyflux.database.TinyFlux.update/update_all/_update_helper/_generate_updater(perform_update)/index_is_exact",
    "tinyflux.measurement.Measurement.update/update_all",
    "tinyflux.point.Point setters, validate_tags/validate_fields, Point.__eq__, copy.deepcopy of points",
    "tinyflux.index.Index.search/build/invalidate",
    "storages: temp storage, _swap_temp_with_primary (memory and csv)",
]
TRUSTED = hc.TRUSTED
ASSUMPTIONS = hc.COMMON_ASSUMPTIONS + [
    "bounds: 3 points before the update (2-3 in csv), one update / update_all, then a symbolic time read",
    "update arguments: time static (symbolic instant, UTC) or callable (+1 s); measurement static or callable; tags/fields "
    "static dicts with symbolic values, or callables returning a constant dict / the old dict merged; unset_tags / "
    "unset_fields as str or list, also for a key set by the same call",
    "outside the claim: non-UTC time arguments (C08), invalid arguments (C11/C14)",
]
BOUNDS = {"points": 3}
from .c01 import h_wide  # noqa: E402

HARNESS = {"h_update": hc.h_update, "h_update2": hc.h_update2, "h_wide": h_wide, "h_inv": hc.h_inv}

UPDS = {
    "field=sym": {"fields": {"f": SYM}},
    "field_new_key": {"fields": {"g": 1}},
    "tag=sym": {"tags": {"k": SYM}},
    "tag_new_key": {"tags": {"j": "x"}},
    "time=sym": {"time": ("static", SYM)},
    "time+1s": {"time": ("callable", 1000000)},
    "time+0": {"time": ("callable", 0)},
    "time+1s@+05:30": {"time": ("callable_off", 1000000, 19800000000)},
    "meas=n": {"measurement": "n"},
    "meas+x": {"measurement": ("callable", "x")},
    "tags_callable_const": {"tags": ("callable", "const", {"k": "a"})},
    "tags_callable_merge": {"tags": ("callable", "merge", {"j": "b"})},
    "fields_callable_const": {"fields": ("callable", "const", {"f": SYM})},
    "fields_callable_merge": {"fields": ("callable", "merge", {"g": 2})},
    "fields_callable_mutate": {"fields": ("callable", "mutate", {"f": SYM})},
    "tags_callable_mutate": {"tags": ("callable", "mutate", {"k": "b", "j": "x"})},
    "unset_tag": {"unset_tags": "k"},
    "unset_tags_list": {"unset_tags": ["k", "zz"]},
    "unset_field": {"unset_fields": "f"},
    "unset_fields_list": {"unset_fields": ["f", "g"]},
    "set+unset_tag": {"tags": {"k": "a"}, "unset_tags": "k"},
    "set+unset_field": {"fields": {"f": 1}, "unset_fields": ["f"]},
    "all_at_once": {"time": ("callable", 1000000), "measurement": "n", "tags": {"k": "b"}, "fields": {"f": SYM}},
}
QS = [B, ("tag", "k", OP, SYM), C, A, ("not", C), ("and", A, B), ("field_exists", "f"), ("or", ("not", D), M), ("and", B, ("not", C)), ("and", ("not", C), B), ("and", B, ("field_map", "f", "f_neg", "<", SYM))]


def _ob(oid, budget=60, presets=None, **p):
    return {"id": oid, "harness": "h_update", "params": p, "budget_s": budget, "presets": presets or {}}


def _tuple_upd(u):
    return u


def obligations(tier):
    th = tier == "thorough"
    obs = []
    for uname, u in UPDS.items():
        for q in QS[:8] if th else [B, C, A, ("not", C), ("and", B, ("not", C)), ("and", ("not", C), B)]:
            for cname, ai, rx in CONFIGS if th else CONFIGS[:2]:
                core = q == B and cname == "ai" and uname != "all_at_once"
                # thorough: three points for the three basic queries under every configuration, two for the rest
                big = core or (th and q in (B, C, A) and uname != "all_at_once")
                obs.append(
                    _ob(f"upd/{uname}/{q_repr(q)}/{cname}", q=q, upd=u, ai=ai, reindex=rx, alpha="sel", n=3 if big else 2, torder="sym" if ("time" in attrs(q) or "time" in u) else "ooo", split_op=True, budget=300 if th else 60)
                )
        for cname, ai, rx in CONFIGS[:2]:
            obs.append(_ob(f"update_all/{uname}/{cname}", upd=u, all=True, ai=ai, reindex=rx, alpha="sel", n=3 if th else 2, torder="sym" if "time" in u else "ooo"))
        for via in ("m", "zz"):
            obs.append(_ob(f"handle-update/{via}/{uname}", q=B, upd=u, via=via, ai=True, alpha="sel", torder="ooo", n=3 if th else 2))
            obs.append(_ob(f"handle-update_all/{via}/{uname}", upd=u, all=True, via=via, ai=False, alpha="sel", torder="ooo", n=3 if th else 2))
    # two successive updates, the second on a subset selected by a symbolic field comparison
    firsts = {"tags": {"tags": {"site": "A"}}, "fields": {"fields": {"g": 1}}, "tags_callable": {"tags": ("callable", "const", {"site": "A"})}}
    seconds = {"tags": {"tags": {"site": "B"}}, "unset_tag": {"unset_tags": "site"}, "fields": {"fields": {"g": 2}}, "unset_field": {"unset_fields": ["g"]}}
    for f1, u1 in firsts.items():
        for f2, u2 in seconds.items():
            for cname, ai, rx in CONFIGS[:2]:
                for tagless in (True, False):
                    o = _ob(f"upd2/{f1}-then-{f2}/{cname}/{'tagless' if tagless else 'tagged'}", q=("field", "f", "<", SYM), upd=u1, upd2=u2, ai=ai, reindex=rx, tagless=tagless, n=3)
                    o["harness"] = "h_update2"
                    obs.append(o)
    for uname in ("field=sym", "fields_callable_const", "set+unset_field"):
        for q in (C, ("not", C)):
            for cname, ai, rx in CONFIGS[:2]:
                obs.append(_ob(f"upd-floats/{uname}/{q_repr(q)}/{cname}", q=q, upd=UPDS[uname], ai=ai, reindex=rx, alpha="sel", n=2, floats=True, torder="ooo"))
    for uname in ("field=sym", "tag=sym", "unset_tag", "time+1s", "fields_callable_mutate"):
        for q in (B, A):
            obs.append(_ob(f"upd-manual-pre/{uname}/{q_repr(q)}", q=q, upd=UPDS[uname], ai=False, reindex_pre=True, alpha="sel", n=3, torder="sym" if ("time" in attrs(q) or "time" in UPDS[uname]) else "ooo"))
    for kind in ("upd", "upd_tags"):
        for cname, ai, rx in CONFIGS[:2] + [("manual-pre", False, False)]:
            obs.append({"id": f"wide/{kind}/{cname}", "harness": "h_wide", "params": {"kind": kind, "ai": ai, "reindex_pre": cname == "manual-pre", "n": 10 if th else 9}, "budget_s": 120 if not th else 600, "presets": {}})
    # multi-operation histories around an update: [X, update, Y]
    updates = ["upd", "upd_tags", "upd_tags_new", "upd_meas", "upd_unset", "upd_time", "upd_time_cb", "upd_handle", "updall", "updall_handle"]
    before = ["ins", "insm", "rm_tag_ne", "upd_tags", "upd_time", "read", "reindex", "ins_notime"]
    after = ["ins", "upd_tags", "rm_tag", "read_tag", "upd_fail"]
    seq = []
    for u in updates:
        for x in before:
            for y in after:
                for ai in (True, False):
                    ops = [hc.OPLIB[o] for o in ("ins", "ins", x, u, y)]
                    seq.append({"id": f"seq/{'ai' if ai else 'noai'}/ins,ins,{x},{u},{y}", "harness": "h_inv", "params": {"ops": ops, "ai": ai, "alpha": "sel", "also": ["tag", "meas"] if ("handle" in u or u == "upd_meas") else ["tag"], "torder": hc.seq_torder(("ins", "ins", x, u, y))}, "budget_s": 120 if not th else 600, "presets": {}})
    obs.extend(hc.thin(seq, 270 if th else 36))
    obs.append(_ob("upd-op/tag", q=("tag", "k", OP, SYM), upd=UPDS["field=sym"], ai=True, alpha="small", n=3 if th else 2, torder="ooo", split_op=True))
    obs.append(_ob("upd-op/field", q=("field", "f", OP, SYM), upd=UPDS["tag=sym"], ai=True, alpha="sel", n=3 if th else 2, torder="ooo", split_op=True))
    obs.append(_ob("upd-op/time", q=("time", OP, SYM), upd=UPDS["time+1s"], ai=True, alpha="sel", n=3, torder="sym", split_op=True))
    csv_core = ("field=sym", "tag=sym", "time=sym", "meas=n", "unset_tag", "set+unset_field", "tags_callable_merge")
    seen = set()
    for uname in csv_core + (tuple(UPDS) if th else ()):
        if uname in seen:
            continue
        seen.add(uname)
        extra = uname not in csv_core  # thorough only: every other update spec, tag query, two points
        for q in ((B,) if extra else (B, ("time", OP, SYM)) + ((C,) if th else ())):
            for cname, ai, rx in CONFIGS[:2]:
                obs.append(_ob(f"csv/upd/{uname}/{q_repr(q)}/{cname}", q=q, upd=UPDS[uname], ai=ai, storage="csv", n=3 if (th and not extra and q == B) else 2, alpha="sel", reopen=(cname == "scan"), split_op=True, budget=300 if th else 90))
    if th:
        for uname in ("field=sym", "tag=sym", "time=sym", "unset_tag", "set+unset_field", "all_at_once"):
            obs.append(_ob(f"n4/upd/{uname}", q=B, upd=UPDS[uname], ai=True, n=4, alpha="sel", budget=600))
    obs.append(_ob("twin/upd", q=B, upd=UPDS["field=sym"], ai=True, alpha="sel", twin=True))
    obs.append(_ob("twin/update_all", upd=UPDS["unset_tag"], all=True, ai=True, alpha="sel", twin=True))
    if th:
        for o in obs:
            o["budget_s"] = max(o["budget_s"], 300)
    return _split(obs)
