"""Harness bodies shared by the history properties C02, C03, C06, C07, C10, C11."""
from .. import lpe
from ..hist import SYM, apply_op, run_path
from ..lpe import fail, require, show
from ..model import q_repr
from .c01 import OP, _untuple, attrs, pspec

TRUSTED = [
    "z3 (feasibility of every branch, negated assertions)",
    "vf.lpe proxies and decision-tree search (cross-checked against CrossHair in C18/C09)",
    "vf.symtime SymTime/Stamp stub (differentially validated against datetime, C08 preflight)",
    "vf.model ModelDB/spec (written from the documentation)",
]
COMMON_ASSUMPTIONS = [
    "stub: the name `datetime` inside tinyflux.* is rebound to vf.symtime.SymTime for memory-storage obligations; float "
    "seconds are exact rationals (lemma L-float-us, C08)",
    "symbolic domains: times = ints (us) in 1700..2240 in any order incl. ties; field values = unbounded ints | None | absent; "
    "tag values from {absent, None, '', 'a', 'b'} or a stated sub-alphabet; measurements from {'m','n'}",
    "relevance cut: only the attribute kinds an obligation's queries/updates read are symbolic, the others are fixed",
    "csv configuration: real files under /dev/shm, times from 3 instants 0.5 s apart, field values in -1..1",
]


def used_of(params):
    used = set(params.get("also", []))
    for key in ("q", "q2"):
        if params.get(key) is not None:
            used |= attrs(_untuple(params[key]))
    return used


def prefix(h, params, used):
    n = params.get("n", 3)
    for i in range(n):
        apply_op(h, ("ins", pspec(i, used, params.get("torder", "sym"), params.get("alpha", "small"))))
    return n


def cfg_of(params):
    return {
        "storage": params.get("storage", "mem"),
        "auto_index": params.get("ai", True),
        "csv_times": params.get("csv_times", 3),
        "floats": params.get("floats", False),
        "meas_alpha": params.get("meas_alpha"),
    }


def after_checks(h, params, what):
    """Contents, index invariant and one further symbolic time read."""
    h.check_contents(f"contents after {what}")
    h.check_inv(f"after {what}")
    if params.get("reindex"):
        apply_op(h, ("reindex",))
    if params.get("reopen"):
        apply_op(h, ("reopen",))
    rd = params.get("read", ("time", ">=", SYM))
    if rd is not None:
        h.check_reads(h.q(_untuple(rd)), None, what=f"read after {what}")
        h.check_inv(f"after read after {what}")
    if params.get("twin"):
        fail("reachability twin")


# ------------------------------------------------------------------ C02: removals
def h_remove(params):
    used = used_of(params)
    kind = params.get("kind", "rm")
    if kind in ("drop", "rm_via") or params.get("mfilter") is not None:
        used |= {"meas"}

    def body(h):
        prefix(h, params, used)
        if params.get("reindex_pre"):  # the removal runs on a manually built, valid index
            apply_op(h, ("reindex",))
        if params.get("pre_read"):
            h.check_reads(h.q(("time", "<", SYM)), None, what="read before removal")
        if params.get("pre_remove"):  # an earlier rewrite of the file (handle reopened)
            apply_op(h, ("rm", ("time", "<", SYM)))
            h.check_contents("contents after the first removal")
        if kind == "rm":
            apply_op(h, ("rm", _untuple(params["q"]), params.get("mfilter")))
        elif kind == "rm_via":
            apply_op(h, ("rm", _untuple(params["q"]), None, params["via"]))
        elif kind == "drop":
            apply_op(h, ("drop", params["name"]))
        elif kind == "rmall":
            apply_op(h, ("rmall",))
        elif kind == "rmall_via":
            apply_op(h, ("rmall", params["via"]))
        if params.get("then_insert"):
            apply_op(h, ("ins", pspec(5, used, params.get("torder", "sym"), params.get("alpha", "small"))))
        after_checks(h, params, kind)

    run_path(cfg_of(params), body)


# ------------------------------------------------------------------ C03: updates
def h_update(params):
    us = _unlist(params["upd"])
    used = used_of(params)
    if "tags" in us or "unset_tags" in us:
        used |= {"tag"}
    if "fields" in us or "unset_fields" in us:
        used |= {"field"}
    if "measurement" in us or params.get("via"):
        used |= {"meas"}

    def body(h):
        prefix(h, params, used)
        if params.get("reindex_pre"):
            apply_op(h, ("reindex",))
        if params.get("all"):
            apply_op(h, ("updall", us, params.get("via")))
        else:
            apply_op(h, ("upd", _untuple(params["q"]), us, params.get("via")))
        after_checks(h, params, "update")

    run_path(cfg_of(params), body)


def h_update2(params):
    """Two successive updates (the second on a subset): edits of the first must not alias."""
    us1, us2 = _unlist(params["upd"]), _unlist(params["upd2"])

    def body(h):
        n = params.get("n", 3)
        for i in range(n):
            s = pspec(i, {"field"}, "ooo", "sel")
            s["tags"] = {} if params.get("tagless", True) else {"k": "a"}
            apply_op(h, ("ins", s))
        apply_op(h, ("updall", us1, None))
        h.check_contents("contents after the first update")
        apply_op(h, ("upd", _untuple(params["q"]), us2, None))
        after_checks(h, params, "second update")

    run_path(cfg_of(params), body)


def _unlist(us):
    """JSON round trip turns tuples inside updspecs into lists: restore."""
    out = {}
    for k, v in us.items():
        if isinstance(v, list) and k in ("time", "measurement", "tags", "fields") and v and v[0] in ("static", "callable"):
            v = tuple(v)
        out[k] = v
    return out


# ------------------------------------------------------------------ C06: index invariant along histories
def h_inv(params):
    """Skeleton of operations; INV and the validity protocol after every step."""
    skel = [_untuple(o) for o in params["ops"]]
    used = set(params.get("also", []))
    alpha = params.get("alpha", "sel")

    def body(h):
        cnt = [0]
        ai = h.ai

        def P():
            cnt[0] += 1
            return pspec(cnt[0] - 1, used, params.get("torder", "sym"), alpha)

        for step, op in enumerate(skel):
            k = op[0]
            db = h.db
            was_valid = db.index.valid
            latest = None
            if k == "ins":
                if ai and was_valid and not db.index.empty:
                    latest = db.index.latest_time
                mp = apply_op(h, ("ins", P()))
                if ai and was_valid:
                    in_order = True if latest is None else (mp.t >= _us(latest))
                    if bool(in_order):
                        require(db.index.valid, lambda: f"step {step}: non-decreasing insert invalidated the index")
            elif k == "ins_notime":
                # a point without a time: stamped with the insertion time (symbolic clock, unrelated to the
                # stored times, so it may lie before the latest indexed time)
                if ai and was_valid and not db.index.empty:
                    latest = db.index.latest_time
                s = P()
                s["time"] = None
                mp = apply_op(h, ("ins", s))
                if ai and was_valid:
                    in_order = True if latest is None else (mp.t >= _us(latest))
                    if bool(in_order):
                        require(db.index.valid, lambda: f"step {step}: non-decreasing insert (stamped point) invalidated the index")
            elif k == "insm":
                apply_op(h, ("insm", [P() for _ in range(op[1])]))
            elif k == "ins_handle":
                apply_op(h, ("ins", P(), op[1]))
            elif k == "insm_fail":
                apply_op(h, ("insm_fail", [P() for _ in range(op[1])]))
            elif k == "read":
                h.check_reads(h.q(op[1]), None, what=f"step {step} read")
                if ai:
                    require(db.index.valid, lambda: f"step {step}: index invalid after a read with auto_index on")
            elif k == "all":
                got = db.all(sorted=False)
                h.req_points(got, h.model.pts, f"step {step} all()")
                if ai:
                    require(db.index.valid, lambda: f"step {step}: index invalid after all() with auto_index on")
            else:
                apply_op(h, op)
            h.check_contents(f"contents after step {step} {op[0]}")
            h.check_inv(f"after step {step} {op[0]}")
            if not ai and k in ("ins", "insm", "rm", "rmall", "drop", "upd", "updall"):
                pass  # with auto_index off the index may be valid only if it equals a rebuild (checked above)
        if params.get("final_read", True):
            h.check_reads(h.q(_untuple(params.get("final_q", ("time", ">=", SYM)))), params.get("final_mfilter"), what="final read", via=params.get("final_via"))
            h.check_inv("after final read")
        if params.get("twin"):
            fail("reachability twin")

    run_path(cfg_of(params), body)


# operation library for multi-operation histories (used by C01/C02/C03 "seq" families and by C06)
OPLIB = {
    "ins": ("ins",),
    "ins_notime": ("ins_notime",),
    "insm": ("insm", 2),
    "ins_handle": ("ins_handle", "n"),
    "rm_tag": ("rm", ("tag", "k", "==", "a")),
    "rm_tag_ne": ("rm", ("tag", "k", "!=", "a")),
    "rm_time": ("rm", ("time", "<", SYM)),
    "rm_time_ge": ("rm", ("time", ">=", SYM)),
    "rm_notfield": ("rm", ("not", ("field", "f", "<", SYM))),
    "rm_field": ("rm", ("field", "f", "<", SYM)),
    "rm_filter_m": ("rm", ("tag", "k", "==", "a"), "m"),
    "rm_handle_n": ("rm", ("tag", "k", "==", "a"), None, "n"),
    "rmall": ("rmall",),
    "rmall_handle": ("rmall", "n"),
    "drop": ("drop", "n"),
    "upd": ("upd", ("tag", "k", "==", "a"), {"fields": {"f": SYM}}),
    "upd_tags": ("upd", ("tag", "k", "==", "a"), {"tags": {"k": "b"}}),
    "upd_tags_new": ("upd", ("tag", "k", "==", "b"), {"tags": {"j": "x"}}),
    "upd_meas": ("upd", ("tag", "k", "==", "a"), {"measurement": "n"}),
    "upd_unset": ("upd", ("tag", "k", "==", "a"), {"unset_tags": "k"}),
    "upd_time": ("upd", ("tag", "k", "==", "a"), {"time": ("static", SYM)}),
    "upd_time_cb": ("upd", ("time", ">=", SYM), {"time": ("callable", -2_000_000)}),
    "upd_handle": ("upd", ("tag", "k", "==", "a"), {"fields": {"g": 1}}, "m"),
    "updall": ("updall", {"tags": {"z": "1"}}),
    "updall_handle": ("updall", {"unset_tags": "k"}, "m"),
    "upd_fail": ("upd_fail", ("tag", "k", "!=", "zz"), "fields"),
    "insm_fail": ("insm_fail", 1),
    "read": ("read", ("time", ">=", SYM)),
    "read_tag": ("read", ("tag", "k", "==", "a")),
    "all": ("all",),
    "reindex": ("reindex",),
}


def seq_torder(names):
    """Symbolic stored times up to four inserted points (three when measurements are symbolic too);
    a fixed out-of-order layout beyond (path count)."""
    n = sum({"ins": 1, "ins_notime": 1, "ins_handle": 1, "insm": 2}.get(o, 0) for o in names)
    heavy = any("handle" in o or o in ("upd_meas", "drop", "rm_filter_m", "upd_time_cb") for o in names)
    return "sym" if n <= (3 if heavy else 4) else "ooo"


def thin(items, n):
    """An evenly spaced slice of n items (all of them when there are no more than n); deterministic."""
    if len(items) <= n:
        return list(items)
    step = len(items) / n
    return [items[int(k * step + step / 2)] for k in range(n)]


def _us(t):
    from ..symtime import us_of

    return us_of(t)


# ------------------------------------------------------------------ C07: getters
def h_getters(params):
    """focus=tags: measurement and tags k, j symbolic; focus=fields: measurement and field f
    symbolic; focus=time: times symbolic (insertion order vs time order), rest fixed."""
    focus = params.get("focus", "tags")
    used = {"tags": {"tag", "meas"}, "fields": {"field", "meas"}, "time": set()}[focus]
    torder = "sym" if focus == "time" else params.get("torder", "ooo")
    pre_ops = [_untuple(o) for o in params.get("ops", [])]

    def body(h):
        n = params.get("n", 3)
        for i in range(n):
            s = pspec(i, used, torder, params.get("alpha", "none"))
            if focus == "tags":
                s["tags"]["j"] = ("absent", "a")
            elif i % 2 == 0:
                s["tags"]["j"] = "a"
            if i % 2 == 0:
                s["fields"]["g"] = 7
            apply_op(h, ("ins", s))
        for op in pre_ops:
            apply_op(h, op)
        if params.get("reindex"):
            apply_op(h, ("reindex",))
        if params.get("reopen"):
            apply_op(h, ("reopen",))
        check_getters(h, params.get("mfilters", [None, "m", "n", "zz"]), params.get("via", False))
        if params.get("twin"):
            fail("reachability twin")

    run_path(cfg_of(params), body)


def check_getters(h, mfilters, via):
    from ..model import veq
    from ..symtime import off_of, us_of

    db, model = h.db, h.model
    try:
        require(db.get_measurements() == model.measurements(), lambda: f"get_measurements {db.get_measurements()} vs {model.measurements()}")
        require(len(db) == len(model.pts), lambda: f"len(db) = {len(db)}, stored {len(model.pts)}")
        h.req_points(list(iter(db)), model.pts, "iter(db)")
        h.req_points(db.all(sorted=False), model.pts, "all(sorted=False)")
        h.req_points(db.all(), sorted(model.pts, key=lambda p: p.t), "all()")
        for mf in mfilters:
            if via and mf is not None:
                t = db.measurement(mf)
                kw = {}
                name = f"measurement({mf!r})"
                require(len(t) == len([p for p in model.pts if p.m == mf]), lambda: f"len({name}) = {len(t)}")
                h.req_points(list(iter(t)), [p for p in model.pts if p.m == mf], f"iter({name})")
                h.req_points(t.all(sorted=False), [p for p in model.pts if p.m == mf], f"{name}.all(sorted=False)")
                h.req_points(t.all(), sorted([p for p in model.pts if p.m == mf], key=lambda p: p.t), f"{name}.all()")
            else:
                t = db
                kw = {} if mf is None else {"measurement": mf}
                name = f"db[{mf!r}]"
            g = t.get_tag_keys(**kw)
            require(g == model.tag_keys(mf), lambda: f"{name}.get_tag_keys {g} vs {model.tag_keys(mf)}")
            g2 = t.get_field_keys(**kw)
            require(g2 == model.field_keys(mf), lambda: f"{name}.get_field_keys {g2} vs {model.field_keys(mf)}")
            for sel in ([], ["k"], ["j", "zz"]):
                tv = t.get_tag_values(sel, **kw) if sel else t.get_tag_values(**kw)
                exp = model.tag_values(sel, mf)
                require(tv == exp, lambda: f"{name}.get_tag_values({sel}) {tv} vs {exp}")
            for fk in ("f", "g", "zz"):
                fv = t.get_field_values(fk, **kw)
                exp = model.field_values(fk, mf)
                require(len(fv) == len(exp), lambda: f"{name}.get_field_values({fk!r}) {show(fv)} vs {show(exp)}")
                for a, b in zip(fv, exp):
                    require(veq(a, b), lambda: f"{name}.get_field_values({fk!r}) {show(fv)} vs {show(exp)}")
            ts = t.get_timestamps(**kw)
            exp = model.timestamps(mf)
            require(len(ts) == len(exp), lambda: f"{name}.get_timestamps: {len(ts)} vs {len(exp)}")
            for a, b in zip(ts, exp):
                o = off_of(a)
                require(o is not None and veq(o, 0), lambda: f"{name}.get_timestamps returned non-UTC {show(a)}")
                require(us_of(a) == b, lambda: f"{name}.get_timestamps {show(ts)} vs {show(exp)}")
    except Exception as e:
        fail(lambda: f"getter raised {type(e).__name__}: {e}")
