"""C14 - no API path lets an invalid value into the database.

CrossHair family: the offending value is `Union[int, float, bool, bytes, None, str,
List[int], Dict[str, int]]` - CrossHair chooses the type and the value symbolically - for
every (entry point, slot) pair.  lpe family: the same matrix over a concrete battery of
wrongly-typed values (finite selectors: exhaustion == enumeration of the product; stated
as such), which also drives Measurement.* and both storages.
"""
import datetime as _dt

from .. import lpe
from ..hist import run_path
from ..lpe import choose, fail, require, show

PROP = "C14"
FUNCTIONS_ENCODED = [
    "tinyflux.point.Point.__init__/_validate_kwargs/validate_tags/validate_fields/time|measurement|tags|fields setters",
    "tinyflux.database.TinyFlux.insert/insert_multiple/_insert_helper (isinstance check)",
    "TinyFlux.update/update_all/_generate_updater (static validation; callable results)",
    "tinyflux.measurement.Measurement.insert/update/update_all",
]
TRUSTED = ["CrossHair 0.0.110 (Union-typed symbolic value)", "z3", "vf.lpe"]
ASSUMPTIONS = [
    "slots: time, measurement, tag key, tag value, field key, field value; entry points: Point(...), attribute assignment, "
    "insert/insert_multiple of a non-Point, update/update_all static arguments, update/update_all callables, Measurement.update(_all)",
    "a value is valid for a slot iff: time: datetime; measurement: str; tag key: str; tag value: str|None; field key: str; "
    "field value: None | int | float but not bool",
    "asserted: the call raises ValueError/TypeError, or the value is valid for the slot; afterwards every stored point (db.all() and "
    "raw storage items) is well-typed",
    "lpe battery: 0, 1, -1, 1.5, 0.0, True, False, b'', b'x', None, '', 'x', [], [1], {}, {'a': 1}, (1,), datetime, float('nan'); "
    "exhausting finite selectors == enumerating the product",
    "outside the claim: in-place mutation of a Point's tags/fields dict by the caller (not an API path of the property)",
]
BOUNDS = {"values": "Union of 8 types (CrossHair) / 19 literals (lpe)"}

T0 = _dt.datetime(2020, 1, 1, tzinfo=_dt.timezone.utc)
BATTERY = [0, 1, -1, 1.5, 0.0, True, False, b"", b"x", None, "", "x", [], [1], {}, {"a": 1}, (1,), T0, float("nan")]
SLOTS = ("time", "measurement", "tag_key", "tag_value", "field_key", "field_value")
ENTRIES = ("insert_measurement_arg", "insert_multiple_measurement_arg", "handle_name_insert", "ctor+nonevalue", "setter+nonevalue", "update_static+nonevalue", "update_callable+nonevalue", "ctor", "setter", "update_static", "update_all_static", "update_callable", "update_all_callable", "handle_update_static", "handle_update_callable", "insert_nonpoint", "insert_multiple_nonpoint", "ctor+other", "update_static+other", "update_all_static+other", "handle_update_static+other",
           "ctor+second", "setter+second", "update_static+second", "update_all_static+second", "handle_update_static+second", "update_callable+second",
           "ctor+pairs", "setter+pairs", "update_static+pairs", "update_all_static+pairs", "handle_update_static+pairs", "update_callable+pairs")


def valid_for(slot, v):
    if slot == "time":
        return isinstance(v, _dt.datetime)
    if slot in ("measurement", "tag_key", "field_key"):
        return isinstance(v, str)
    if slot == "tag_value":
        return v is None or isinstance(v, str)
    return v is None or (isinstance(v, (int, float)) and not isinstance(v, bool))


def well_typed(p):
    from tinyflux import Point

    if not isinstance(p, Point):
        return False
    if not isinstance(p.time, _dt.datetime) or not isinstance(p.measurement, str):
        return False
    if not isinstance(p.tags, dict) or not isinstance(p.fields, dict):
        return False
    for k, v in p.tags.items():
        if not isinstance(k, str) or not (v is None or isinstance(v, str)):
            return False
    for k, v in p.fields.items():
        if not isinstance(k, str):
            return False
        if v is not None and (isinstance(v, bool) or not isinstance(v, (int, float))):
            return False
    return True


def _hashable(v):
    try:
        hash(v)
        return True
    except TypeError:
        return False


def attempt(db, entry, slot, v):
    """Perform the API call that supplies v in `slot` through `entry`.
    Returns ("raised", exc) | ("accepted", None) | ("skip", why)."""
    from tinyflux import Point, TagQuery

    q = TagQuery().k == "a"
    key_slot = slot in ("tag_key", "field_key")
    if key_slot and not _hashable(v):
        return ("skip", "unhashable value cannot be a dict key")
    if slot == "time":
        kw = {"time": v}
    elif slot == "measurement":
        kw = {"measurement": v}
    elif slot == "tag_key":
        kw = {"tags": {v: "x"}}
    elif slot == "tag_value":
        kw = {"tags": {"k": v}}
    elif slot == "field_key":
        kw = {"fields": {v: 1}}
    else:
        kw = {"fields": {"f": v}}
    if v is None and slot in ("time", "measurement") and "update" in entry:
        return ("skip", "None is the documented 'argument not given' value of update()")
    if entry in ("insert_measurement_arg", "insert_multiple_measurement_arg", "handle_name_insert"):
        # the measurement NAME supplied as an argument of insert / as the name of a handle
        if slot != "measurement":
            return ("skip", "entry point only has a measurement slot")
        if not v and not isinstance(v, str):
            # falsy values are treated as "no measurement given" by insert (same truthiness rule as the
            # known finding KF-C10-empty-measurement-name); nothing invalid can be stored through them
            return ("skip", "falsy value = argument not given")
        p = Point(time=T0, tags={"k": "a"})
        try:
            if entry == "insert_measurement_arg":
                db.insert(p, measurement=v)
            elif entry == "insert_multiple_measurement_arg":
                db.insert_multiple([p], measurement=v)
            else:
                if not _hashable(v):
                    return ("skip", "unhashable handle name")
                db.measurement(v).insert(p)
        except (ValueError, TypeError) as e:
            return ("raised", e)
        return ("accepted", None)
    if entry.endswith("+nonevalue"):
        # a key slot whose VALUE is None (a valid value): the key must still be validated
        if slot not in ("tag_key", "field_key"):
            return ("skip", "only key slots")
        entry = entry[: -len("+nonevalue")]
        kw = {"tags": {v: None, "ok": "v"}} if slot == "tag_key" else {"fields": {"ok": 1.0, v: None}}
    if entry.endswith("+second"):
        # the offending key / value is NOT the first entry of its mapping: a valid entry precedes it
        if slot not in ("tag_key", "tag_value", "field_key", "field_value"):
            return ("skip", "only tag/field slots")
        entry = entry[: -len("+second")]
        (name, d), = kw.items()
        first = {"ok1": "v", "ok2": None} if name == "tags" else {"ok1": None, "ok2": 1.5}
        if any(k in first for k in d):
            return ("skip", "key collides with the valid entries")
        merged = dict(first)
        merged.update(d)
        kw = {name: merged}
    if entry.endswith("+pairs"):
        # the tag / field set supplied as a list of (key, value) pairs instead of a mapping: dict.update() would
        # take it, so the wrongly-typed key or value inside must still be rejected
        if slot not in ("tag_key", "tag_value", "field_key", "field_value"):
            return ("skip", "only tag/field slots")
        entry = entry[: -len("+pairs")]
        (name, d), = kw.items()
        kw = {name: list(d.items())}
    companion = entry.endswith("+other")
    if companion:
        # the same call also carries a VALID value for another argument
        entry = entry[: -len("+other")]
        other = {"time": {"measurement": "mm"}, "measurement": {"tags": {"ok": "v"}}, "tag_key": {"fields": {"ok": 1}}, "tag_value": {"fields": {"ok": 1}}, "field_key": {"tags": {"ok": "v"}}, "field_value": {"tags": {"ok": "v"}}}[slot]
        kw = dict(other, **kw) if slot.startswith("field") else dict(kw, **other)
    try:
        if entry == "ctor":
            p = Point(**kw)
            db.insert(p)
        elif entry == "setter":
            p = Point(time=T0, measurement="m", tags={"k": "a"}, fields={"f": 1})
            (name, val), = kw.items()
            setattr(p, name, val)
            db.insert(p)
        elif entry in ("update_static", "update_all_static", "handle_update_static"):
            if entry == "update_static":
                db.update(q, **kw)
            elif entry == "update_all_static":
                db.update_all(**kw)
            else:
                db.measurement("m").update(q, **kw)
        elif entry in ("update_callable", "update_all_callable", "handle_update_callable"):
            (name, val), = kw.items()
            cb = {name: (lambda old, val=val: val)}
            if entry == "update_callable":
                db.update(q, **cb)
            elif entry == "update_all_callable":
                db.update_all(**cb)
            else:
                db.measurement("m").update_all(**cb)
        elif entry == "insert_nonpoint":
            db.insert(v)
        elif entry == "insert_multiple_nonpoint":
            db.insert_multiple([Point(time=T0), v])
    except (ValueError, TypeError) as e:
        return ("raised", e)
    return ("accepted", None)


def check_one(db, entry, slot, v):
    """True iff the property holds for this call; message otherwise."""
    from tinyflux import Point

    kind, info = attempt(db, entry, slot, v)
    if kind == "skip":
        return True, None
    if entry.split("+")[0] in ("insert_nonpoint", "insert_multiple_nonpoint"):
        ok_value = isinstance(v, Point)
    else:
        ok_value = valid_for(slot, v)
    if entry in ("insert_measurement_arg", "insert_multiple_measurement_arg", "handle_name_insert"):
        ok_value = isinstance(v, str)
    if kind == "accepted" and not ok_value:
        return False, f"{entry}: {slot} = {v!r} ({type(v).__name__}) was accepted without ValueError/TypeError"
    pts = db.all(sorted=False)
    raw = [db._storage._deserialize_storage_item(i) for i in db._storage]
    for p in list(pts) + raw:
        if not well_typed(p):
            return False, f"{entry}: after supplying {slot} = {v!r} the database holds an ill-typed point {lpe.show(p)}"
    return True, None


def h_battery(params):
    entry, slot = params["entry"], params["slot"]

    def body(h):
        from tinyflux import Point

        h.db.insert(Point(time=T0, measurement="m", tags={"k": "a"}, fields={"f": 1}))
        h.db.insert(Point(time=T0, measurement="n", tags={"k": "a"}, fields={}))
        i = choose("v", len(BATTERY))
        try:
            ok, msg = check_one(h.db, entry, slot, BATTERY[i])
        except Exception as e:
            fail(lambda: f"{entry}/{slot} with {BATTERY[i]!r} raised unexpected {type(e).__name__}: {e}")
        require(ok, lambda: msg)
        if params.get("twin"):
            fail("reachability twin")

    run_path({"storage": params.get("storage", "mem"), "auto_index": params.get("ai", True), "stub": False}, body)


HARNESS = {"h_battery": h_battery}


def obligations(tier):
    obs = []
    for entry in ENTRIES:
        slots = ("measurement",) if entry in ("insert_measurement_arg", "insert_multiple_measurement_arg", "handle_name_insert") else (SLOTS if not entry.startswith("insert") else ("time",))
        for slot in slots:
            for storage in ("mem", "csv"):
                if storage == "csv" and entry.split("+")[0] in ("ctor", "setter"):
                    continue
                obs.append({"id": f"battery/{entry}/{slot}/{storage}", "harness": "h_battery", "params": {"entry": entry, "slot": slot, "storage": storage}, "budget_s": 60})
            # CrossHair: value slots only (a hashed symbolic value - a dict key - is realised, which turns
            # "for all" into an endless enumeration; key slots are decided by the battery family)
            if slot.endswith("_key") or (tier == "quick" and entry not in ("ctor", "update_static", "update_callable", "insert_nonpoint", "update_static+other")):
                continue
            if tier == "quick" and entry.split("+")[0] == "update_static" and slot in ("time", "measurement"):
                continue  # not confirmed within 100 s (reported inconclusive in the thorough tier)
            obs.append({"id": f"crosshair/{entry}/{slot}", "engine": "ch", "harness": "h_union", "params": {"entry": entry, "slot": slot}, "budget_s": 100 if tier == "quick" else 600})
    obs.append({"id": "twin/battery", "harness": "h_battery", "params": {"entry": "update_static", "slot": "tag_value", "twin": True}, "budget_s": 30})
    obs.append({"id": "twin/crosshair", "engine": "ch", "harness": "h_twin", "params": {"entry": "update_static", "slot": "tag_value", "twin": True}, "budget_s": 30})
    return obs


def replay(body):
    if body.get("engine") == "ch":
        import sys

        from .. import chdrv

        return chdrv.replay_body(sys.modules[__name__], body)
    params = dict(body["params"] or {})
    return lpe.ConcreteEngine(body["inputs"] or {}).run(lambda: HARNESS[body["harness"]](params))
