"""C13 - an I/O error during an operation is reported and corrupts nothing.

Same machinery as C12 (vf/props/c12.py) with an OSError injected at I/O call k, before the
call takes effect and - for write/flush/fsync/close/truncate - after it took effect,
followed by reads, a further write, close and reopen.
"""
from . import c12

PROP = "C13"
LEVEL = "fault_enumeration"
FUNCTIONS_ENCODED = c12.FUNCTIONS_ENCODED + ["behaviour of the live TinyFlux object after the error: count/len/all/get_timestamps vs its own storage, a further insert/remove, close, reopen"]
TRUSTED = c12.TRUSTED
ASSUMPTIONS = [
    "fault = one OSError(ENOSPC) raised by exactly one proxied I/O call (open, NamedTemporaryFile, write, flush, fsync, truncate, "
    "close, os.replace/remove, the three steps of a file copy, and every line read while the library scans its file), before "
    "the call takes effect, or after it for write/flush/fsync/truncate/close",
    "asserted: the error reaches the caller; the file decodes to the old or the new contents (insert_multiple: old + prefix); "
    "afterwards EACH answer of the live object (count, len, all, get_timestamps, get_measurements), taken on its own, equals what "
    "its own storage iterates at that moment - or, when the failed operation left its handle closed, what the file at its path "
    "decodes to - or is an exception; after a further insert/remove and close(), the file decodes and a fresh TinyFlux opens it and "
    "holds only points that were actually stored",
    "history and operations as in C12; finite selectors: exhaustion == enumeration of fault points",
    "outside the claim: several faults in one operation; partial writes (short write counts)",
]
BOUNDS = c12.BOUNDS
HARNESS = c12.HARNESS
KF_BUFFERED = "KF-C13-failed-flush-leaves-row-buffered"


def classify(ob, res):
    return None


def obligations(tier):
    obs = []
    for op in c12.OPS:
        for ai in (True, False):
            for nxt in ("insert", "remove"):
                for rew in (False, True):
                    obs.append({"id": f"oserror/{op}/{'ai' if ai else 'noai'}/then-{nxt}{'/after-rewrite' if rew else ''}", "harness": "h_crash", "params": {"op": op, "ai": ai, "mode": "oserror", "next": nxt, "pre_rewrite": rew}, "budget_s": 120})
    for op in c12.W_OPS:
        for ai in (True, False):
            for nxt in ("insert", "remove"):
                obs.append({"id": f"oserror/{op}/{'ai' if ai else 'noai'}/then-{nxt}/mode-w+", "harness": "h_crash", "params": {"op": op, "ai": ai, "mode": "oserror", "next": nxt, "access_mode": "w+"}, "budget_s": 120})
    if tier == "thorough":
        for op in c12.OPS:
            for ai in (True, False):
                for nxt in ("insert", "remove"):
                    obs.append({"id": f"oserror/{op}/{'ai' if ai else 'noai'}/then-{nxt}/six-rows", "harness": "h_crash", "params": {"op": op, "ai": ai, "mode": "oserror", "next": nxt, "big": True}, "budget_s": 300})
    obs.append({"id": "twin/oserror", "harness": "h_crash", "params": {"op": "update", "ai": True, "mode": "oserror", "twin": True}, "budget_s": 60})
    return obs
