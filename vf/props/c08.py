"""C08 - timestamps are stored as exact UTC instants and ordered correctly."""
import datetime as _dt
import os
import time as _time

from .. import lemmas, lpe, symtime
from ..hist import SYM, apply_op, run_path
from ..lpe import assume, choose, fail, require, show, sym_int
from ..model import MP, OPNAMES, OPS, q_repr
from ..symtime import HI_US, LO_US, M, mk_time, off_of, us_of
from . import histcommon as hc
from .c01 import CONFIGS

PROP = "C08"
FUNCTIONS_ENCODED = [
    "tinyflux.database.TinyFlux._insert_helper (astimezone(utc) normalisation, stamping of missing times)",
    "TinyFlux._generate_updater.perform_update (time branch, static and callable), _update_helper",
    "tinyflux.point.Point.time setter, _serialize_to_list/_deserialize_from_list time cell (csv configuration)",
    "tinyflux.index.Index.build/_insert_time/latest_time/_search_timestamps/get_timestamps",
    "TinyFlux.get_timestamps/search(sorted=True)/all/select('time'); tinyflux.queries TimeQuery comparisons",
    "SMT lemma L-float-us (model of CPython's timestamp()/fromtimestamp())",
]
TRUSTED = hc.TRUSTED + ["L-float-us: QF_LIRA model of round-to-nearest double arithmetic, validated against CPython on 2e4 samples + binade boundaries per run"]
ASSUMPTIONS = hc.COMMON_ASSUMPTIONS + [
    "time kinds per inserted / updated / compared value: aware UTC; aware with a symbolic non-zero UTC offset in (-24 h, 24 h) at "
    "microsecond granularity; naive (= local time) with the local UTC offset an uninterpreted function LOC(wall) in [-26 h, 26 h]; "
    "no time (insertion clock: symbolic non-decreasing)",
    "assumed, not decided: each naive wall value denotes one instant (PEP 495 fold ignored, gaps map like CPython does); "
    "datetime.fromtimestamp(x).astimezone(utc) is the identity on instants; DST specifics of tzdata are outside the claim",
    "counterexamples with naive values are replayed under TZ in {UTC, America/Los_Angeles, Australia/Lord_Howe, Asia/Kathmandu}; "
    "csv obligations run with concrete instants under each of the four process zones",
    "range: 1700..2240 (the property's range); L-float-us covers 1697-10..2242-03 and is sat beyond",
    "bounds: 2-3 points, optional update(time=...), then reads with a time comparison of each kind",
]
BOUNDS = {"points": 3}
ZONES = ["UTC", "America/Los_Angeles", "Australia/Lord_Howe", "Asia/Kathmandu"]
H24 = 24 * 3600 * M
KINDS = ("utc", "aware", "naive")


def preflight(tier):
    n = symtime.validate(n_cases=60 if tier == "quick" else 300)
    l = lemmas.lemma_float_us()
    v = lemmas.validate_float_us(5000 if tier == "quick" else 100000)
    if not l["ok"]:
        print(f"HARNESS-ERROR lemma L-float-us failed: {l}")
        raise SystemExit(2)
    return {"symtime_differential_comparisons": n, "L-float-us": l, "L-float-us_validated_on_cpython_values": v, "validated": n + v}


def mk_kind(h, kind, base):
    """A datetime of the given kind plus the instant (us) the documentation assigns it."""
    if h.storage == "csv":
        inst = h.time_us(base)
        if kind == "utc":
            return mk_time(inst), inst
        if kind == "aware":
            off = [330 * 60 * M, -8 * 3600 * M, 1][choose(h.name("off"), 3)]
            return mk_time(inst, off), inst
        wall = inst - 1_600_000_000_000_000 + 1_000_000_000_000_000
        t = mk_time(wall, None)
        return t, wall - symtime._local_offset_of_wall(wall)
    inst = h.time_us(base)
    if kind == "utc":
        return mk_time(inst), inst
    if kind == "aware":
        off = sym_int(h.name("off"), -H24 + 1, H24 - 1)
        assume(off != 0)
        return mk_time(inst, off), inst
    wall = inst  # the symbolic value is the wall-clock reading
    t = mk_time(wall, None)
    return t, wall - symtime._local_offset_of_wall(wall)


def h_time(params):
    cfg = hc.cfg_of(params)
    zone = params.get("zone")

    def body(h):
        from tinyflux import Point, TimeQuery

        n = params.get("n", 2)
        kinds = params.get("kinds", ["sym"] * n)
        if params.get("multi"):
            # all points through ONE insert_multiple call (any order within the batch), after one earlier point
            t0, i0 = mk_kind(h, "utc", "t")
            h.db.insert(Point(time=t0, measurement="m", tags={"k": "b"}))
            h.model.insert(MP(i0, "m", {"k": "b"}, {}))
            pts = []
            for i in range(n):
                kind = kinds[i] if kinds[i] != "sym" else KINDS[choose(h.name("kind"), 3)]
                t, inst = mk_kind(h, kind, "t")
                tagv = ("a", "b")[choose(h.name("g"), 2)]
                pts.append(Point(time=t, measurement="m", tags={"k": tagv}))
                h.model.insert(MP(inst, "m", {"k": tagv}, {}))
            try:
                tgt = h.db.measurement("m") if params.get("multi") == "handle" else h.db
                r = tgt.insert_multiple(iter(pts))
            except Exception as e:
                fail(lambda: f"insert_multiple raised {type(e).__name__}: {e}")
            require(r == n, lambda: f"insert_multiple returned {r}")
            n = 0
        for i in range(n):
            kind = kinds[i]
            if kind == "sym":
                kind = KINDS[choose(h.name("kind"), 3)]
            if kind == "none":
                apply_op(h, ("ins", {"time": None, "meas": "m", "tags": {"k": ("a", "b")}}))
                continue
            t, inst = mk_kind(h, kind, "t")
            p = Point(time=t, measurement="m", tags={"k": ("a", "b")[choose(h.name("g"), 2)]})
            mp = MP(inst, "m", dict(p.tags), {})
            try:
                r = h.db.insert(p)
            except Exception as e:
                fail(lambda: f"insert of a {kind} time raised {type(e).__name__}: {e}")
            h.model.insert(mp)
        upd = params.get("update")
        if upd:
            ukind = upd[1]
            if ukind == "sym":
                ukind = KINDS[choose(h.name("ukind"), 3)]
            if upd[0] == "static":
                t, inst = mk_kind(h, ukind, "u")
                kw = {"time": t}
                change = lambda p: setattr(p, "t", inst) or p
            else:  # callable: +1 s, returned in a zone of kind ukind
                if ukind == "utc":
                    off = 0
                elif ukind == "aware":
                    off = sym_int(h.name("uoff"), -H24 + 1, H24 - 1) if h.storage == "mem" else 330 * 60 * M
                kw = {"time": (lambda old: mk_time(us_of(old) + M, off))}
                change = lambda p: setattr(p, "t", p.t + M) or p
            try:
                r = h.db.update(h.compile(("tag", "k", "==", "a")), **kw)
            except Exception as e:
                fail(lambda: f"update(time=<{ukind}>) raised {type(e).__name__}: {e}")
            nchg = h.model.update(("tag", "k", "==", "a"), None, change)
            require(r == nchg, lambda: f"update(time=...) returned {r}, model changed {nchg}")
        if params.get("reindex"):
            apply_op(h, ("reindex",))
        if params.get("reopen"):
            apply_op(h, ("reopen",))
        h.check_contents("stored times")
        hc.check_getters(h, [None], False)
        # a time comparison whose right-hand side is of each kind
        rk = params.get("rhs", "sym")
        if rk == "sym":
            rk = KINDS[choose(h.name("rkind"), 3)]
        rt, rinst = mk_kind(h, rk, "x")
        op = OPNAMES[choose(h.name("op"), 6)]
        qd = ("time", op, rinst)
        h.check_reads(qd, None, what=f"TimeQuery {op} <{rk}>", qobj=lambda: OPS[op](TimeQuery(), rt))
        if params.get("twin"):
            fail("reachability twin")

    old = os.environ.get("TZ")
    try:
        if zone:
            os.environ["TZ"] = zone
            _time.tzset()
        run_path(cfg, body)
    finally:
        if zone:
            if old is None:
                os.environ.pop("TZ", None)
            else:
                os.environ["TZ"] = old
            _time.tzset()


HARNESS = {"h_time": h_time}


def _ob(oid, budget=60, presets=None, **p):
    return {"id": oid, "harness": "h_time", "params": p, "budget_s": budget, "presets": presets or {}, "replay_zones": ZONES}


def _by_op(obs):
    out = []
    for ob in obs:
        for i, nm in enumerate(OPNAMES):
            out.append(dict(ob, id=f"{ob['id']}/op{nm}", presets=dict(ob["presets"], op0=i)))
    return out


def obligations(tier):
    th = tier == "thorough"
    obs = []
    for cname, ai, rx in CONFIGS:
        for rhs in KINDS:
            obs.append(_ob(f"insert/sym-kinds/rhs-{rhs}/{cname}", ai=ai, reindex=rx, n=2, rhs=rhs))
        obs.append(_ob(f"insert_multiple/utc/{cname}", ai=ai, reindex=rx, n=2, kinds=["utc", "utc"], rhs="utc", multi=True))
        obs.append(_ob(f"insert_multiple/kinds/{cname}", ai=ai, reindex=rx, n=2, rhs="utc", multi="handle"))
        obs.append(_ob(f"insert/3points-utc/{cname}", ai=ai, reindex=rx, n=3, kinds=["utc", "utc", "utc"], rhs="utc"))
        obs.append(_ob(f"insert/clock/{cname}", ai=ai, reindex=rx, n=3, kinds=["none", "utc", "none"], rhs="utc"))
        for how in ("static", "callable"):
            for uk in ("utc", "aware") + (("naive",) if how == "static" else ()):
                obs.append(_ob(f"update/{how}/{uk}/{cname}", ai=ai, reindex=rx, n=2, kinds=["utc", "sym"] if th else ["utc", "utc"], update=(how, uk), rhs="utc"))
    split = _by_op(obs)
    obs = split
    for zone in ZONES:
        for cname, ai, rx in CONFIGS[:2]:
            for rhs in KINDS:
                for i, nm in enumerate(OPNAMES if th else ("==", "<", ">=")):
                    obs.append(_ob(f"csv/{zone}/insert/rhs-{rhs}/{cname}/op{nm}", ai=ai, storage="csv", zone=zone, n=2, rhs=rhs, reopen=(cname == "scan"), budget=120, csv_times=2 if not th else 3, presets={"op0": OPNAMES.index(nm)}))
            for how, uk in (("static", "aware"), ("callable", "aware"), ("static", "naive")):
                obs.append(_ob(f"csv/{zone}/update-{how}-{uk}/{cname}", ai=ai, storage="csv", zone=zone, n=2, kinds=["utc", "utc"], update=(how, uk), rhs="utc", reopen=True, budget=120))
    obs.append(_ob("twin/insert", ai=True, n=2, rhs="utc", twin=True))
    obs.append(_ob("twin/csv", ai=True, storage="csv", zone="Asia/Kathmandu", n=1, rhs="naive", twin=True))
    return obs
