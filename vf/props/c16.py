"""C16 - insert is append-only and its I/O cost does not depend on database size.

(a) symbolic file: the primary handle is replaced by FakeFile(L, pos) whose length L and
    cursor pos are UNBOUNDED symbolic integers (L >= pos >= 0): "for all database sizes
    and all cursor positions left behind by earlier reads" is one symbolic run.
(b) real files: early-stopping reads before the insert, in/out-of-order times, bytes
    compared, proxied I/O calls per inserted point compared for 0..3 stored points.
"""
import os

import z3

from .. import files, lpe
from ..hist import run_path
from ..lpe import SymInt, assume, choose, fail, require, show, sym_bool, sym_int
from ..symtime import mk_time

PROP = "C16"
FUNCTIONS_ENCODED = [
    "tinyflux.storages.CSVStorage.append (seek to end, csv write, flush, fsync, truncate)",
    "tinyflux.database.TinyFlux.insert/insert_multiple/_insert_helper (incl. index order check / invalidation)",
    "tinyflux.point.Point._serialize_to_list; C csv.writer (executed)",
]
TRUSTED = ["z3", "vf.lpe", "FakeFile: abstract file with symbolic length and cursor (seek/tell/write/flush/truncate semantics of a text file opened r+)"]
ASSUMPTIONS = [
    "(a) the primary handle is a FakeFile with symbolic length L and cursor pos, 0 <= pos <= L, both unbounded; os.fsync is a recorder; "
    "the point contents are concrete (the C csv writer needs concrete strings); index state in {invalid, valid-empty, valid with 2 "
    "earlier points}, auto_index and flush_on_insert symbolic booleans; 1 or 2 points per call, in or out of time order",
    "asserted (a): no read/iteration on the handle; every write starts at an offset >= L; truncate never below the old L; bytes written "
    "== the csv encoding of the points; the sequence of I/O calls equals the sequence observed for an EMPTY file (L = pos = 0)",
    "(a) also: a symbolic number of bytes of earlier inserts still in the user-space write buffer (flush_on_insert off): os.fstat / "
    "os.path.getsize / os.stat answer with the on-disk length, seek/flush/truncate/close drain the buffer",
    "(b) real files: 0, 1, 2, 3 and 160 stored points (> 8 KiB), an early-stopping get()/contains()/partial iteration before the insert; "
    "flush_on_insert on/off; three inserts back to back: each on-disk state is a prefix of the next, after close() the old bytes are a "
    "proper prefix and the reopened database ends with the three points; the recorded I/O call list is identical for every database size",
    "outside the claim: storage classes other than CSVStorage; OS-level behaviour of O_APPEND",
]
BOUNDS = {"L": "unbounded", "pos": "unbounded"}
T0 = 1_600_000_000_000_000


class FakeFile:
    """Abstract text file opened r+.  `log` records the calls.

    L    logical length (what the process would read back: disk + its own write buffer)
    disk length on disk: L - B for a symbolic number B >= 0 of bytes still buffered by an earlier
         insert with flush_on_insert=False (B = 0 after any flush/seek/truncate, as for TextIOWrapper)
    """

    def __init__(self, L, pos, buffered=0):
        self.L0 = L
        self.L = L
        self.disk = L - buffered
        self.pos = pos
        self.log = []
        self.written = []
        self.closed = False
        self.name = "<fake>"

    def _sync(self):
        self.disk = self.L

    def seek(self, off, whence=0):
        self._sync()  # TextIOWrapper.seek() flushes pending writes first
        if whence == 0:
            self.pos = off
        elif whence == 2:
            self.pos = self.L + off
        else:
            self.pos = self.pos + off
        self.log.append("seek")
        return self.pos

    def tell(self):
        self.log.append("tell")
        return self.pos

    def write(self, s):
        n = len(s)
        self.log.append("write")
        require(self.pos >= self.L0, lambda: f"insert wrote at offset {show(self.pos)} inside the existing data (length {show(self.L0)})")
        self.written.append(s)
        end = self.pos + n
        self.L = _max(self.L, end)
        self.pos = end
        return n

    def flush(self):
        self._sync()
        self.log.append("flush")

    def fileno(self):
        return FAKE_FD

    def truncate(self, size=None):
        self._sync()
        size = self.pos if size is None else size
        self.log.append("truncate")
        require(size >= self.L0, lambda: f"insert truncated the file to {show(size)} < existing length {show(self.L0)}")
        self.L = size
        self.disk = size
        return size

    def _read(self, *a):
        self.log.append("read")
        fail("insert read existing data from the file")

    read = readline = readlines = _read

    def __iter__(self):
        self._read()

    def close(self):
        self._sync()
        self.log.append("close")
        self.closed = True


FAKE_FD = -7


def SymBoolNot(b):
    return (not b) if isinstance(b, bool) else ~b


def _max(a, b):
    if isinstance(a, SymInt) or isinstance(b, SymInt):
        ea = a.e if isinstance(a, SymInt) else z3.IntVal(a)
        eb = b.e if isinstance(b, SymInt) else z3.IntVal(b)
        return SymInt(z3.If(ea >= eb, ea, eb))
    return max(a, b)


class _Stat:
    def __init__(self, size):
        self.st_size = size


class _FakePath:
    def __init__(self, hdl):
        self._h = hdl

    def __getattr__(self, n):
        return getattr(os.path, n)

    def getsize(self, p):
        self._h.log.append("getsize")
        return self._h.disk


class _FakeOS:
    """os as seen by tinyflux.storages: fsync is recorded, size queries answer with the ON-DISK length
    of the fake file (buffered bytes are not on disk yet)."""

    def __init__(self, hdl):
        self._h = hdl
        self._log = hdl.log
        self.path = _FakePath(hdl)

    def __getattr__(self, n):
        return getattr(os, n)

    def fsync(self, fd):
        self._log.append("fsync")

    def fstat(self, fd):
        if fd == FAKE_FD:
            self._log.append("fstat")
            return _Stat(self._h.disk)
        return os.fstat(fd)

    def stat(self, p, *a, **k):
        self._log.append("stat")
        return _Stat(self._h.disk)

    def ftruncate(self, fd, size):
        if fd == FAKE_FD:
            return self._h.truncate(size)
        return os.ftruncate(fd, size)


def _pt(i, t):
    from tinyflux import Point

    return Point(time=mk_time(t), measurement="m", tags={"k": "a,b" if i else "x"}, fields={"f": i + 0.5})


def _scenario(params, make_handle):
    """Build a db over a handle made by make_handle(), insert, return (handle, log, rows)."""
    import tinyflux.storages as st
    from tinyflux import TinyFlux

    ai, flush = params["_ai"], params["_flush"]
    idx, npts, order = params["idx"], params["npts"], params["order"]
    d = params["_dir"]
    path = os.path.join(d, f"fake{params['_n']}.csv")
    params["_n"] += 1
    db = TinyFlux(path, auto_index=ai, flush_on_insert=flush)
    real = db._storage._handle
    hdl = make_handle()
    db._storage._handle = hdl
    old_os = st.os
    st.os = _FakeOS(hdl)
    try:
        if idx == "invalid":
            db._index.invalidate()
        elif idx == "valid2":
            db._index.build([_pt(0, T0), _pt(1, T0 + 10)])
        times = [T0 + 20, T0 + 30, T0 + 30] if order == "in" else ([T0 + 5, T0 + 1, T0 + 40] if order == "out" else [T0 + 10, T0 + 10, T0 + 10])
        pts = [_pt(i, times[i]) for i in range(npts)]
        how = params.get("how", "db")
        tgt = db.measurement("hm") if how == "handle" else db
        kw = {"compact_key_prefixes": True} if how == "compact" else ({"measurement": "other"} if how == "measurement" else {})
        if npts == 1:
            r = tgt.insert(pts[0], **kw)
        else:
            r = tgt.insert_multiple(iter(pts), **kw)
        require(r == npts, lambda: f"insert returned {r}")
    finally:
        st.os = old_os
        real.close()
    return hdl, db


def h_fake(params):
    def body(h):
        import csv
        import io

        p = dict(params)
        p["_ai"] = sym_bool("auto_index")
        p["_flush"] = sym_bool("flush_on_insert")
        p["_dir"] = os.path.dirname(h.path)
        p["_n"] = 0
        # reference: empty file
        ref, _ = _scenario(p, lambda: FakeFile(0, 0))
        L = sym_int("L", 0)
        pos = sym_int("pos", 0)
        assume(pos <= L)
        # bytes of earlier inserts still in the write buffer (possible only without flush_on_insert;
        # then the cursor is at the logical end: nothing was read since)
        B = sym_int("buffered", 0)
        assume(B <= L)
        if bool(B > 0):
            assume(SymBoolNot(p["_flush"]))
            assume(pos == L)
        hdl, db = _scenario(p, lambda: FakeFile(L, pos, B))
        require(hdl.log == ref.log, lambda: f"I/O calls depend on the file size / cursor: {hdl.log} vs {ref.log} for an empty file")
        require("".join(hdl.written) == "".join(ref.written), lambda: "bytes written depend on the file size")
        rows = list(csv.reader(io.StringIO("".join(hdl.written), newline="")))
        require(len(rows) == p["npts"], lambda: f"{len(rows)} rows written for {p['npts']} points")
        require(hdl.L == L + len("".join(hdl.written)), lambda: f"file length after insert {show(hdl.L)} != old length + bytes written")
        if params.get("twin"):
            fail("reachability twin")

    run_path({"storage": "csv", "auto_index": True, "stub": False}, body)


def h_real(params):
    """Real files, recorded I/O: prefix property and call list independent of size."""
    from tinyflux import TagQuery, TinyFlux

    def body(h):
        ai = sym_bool("auto_index")
        flush = sym_bool("flush_on_insert")
        order = choose("order", 2)
        pre_read = choose("pre_read", 5)
        logs = []
        sizes = params.get("sizes") or [0, 1, 2, 3, 160]  # 160 rows: > 8 KiB, beyond one read-ahead chunk of the text layer
        for n in sizes:
            path = os.path.join(os.path.dirname(h.path), f"real{n}.csv")
            db = TinyFlux(path, auto_index=ai, flush_on_insert=flush)
            if n:
                db.insert_multiple([_pt(i, T0 + i * 10) for i in range(n)])
            # reads that leave the cursor somewhere inside the file
            if pre_read == 1:
                db.get(TagQuery().k == "x")
            elif pre_read == 2:
                db.contains(TagQuery().k.exists())
            elif pre_read == 3:
                it = iter(db)
                next(it, None)
            elif pre_read == 4:
                db.count(TagQuery().k == "nomatch")
            before = files.read_bytes(path)
            chain = [before]
            files.install()
            try:
                # the storage was created before install(): wrap its handle so calls are recorded
                db._storage._handle = files.PFile(db._storage._handle, "primary")
                files.CTL.reset()
                files.CTL.active = True
                # three inserts back to back (without flush_on_insert the earlier rows are still buffered
                # when the next one is appended)
                for j in range(3):
                    t = T0 + 1000 + j if order == 0 else T0 - 1000 - j
                    db.insert(_pt(1, t))
                    files.CTL.active = False
                    chain.append(files.read_bytes(path))
                    files.CTL.active = True
                files.CTL.active = False
                log = list(files.CTL.log)
            finally:
                files.CTL.active = False
                h_ = db._storage._handle
                files.uninstall()
                db._storage._handle = h_._f if isinstance(h_, files.PFile) else h_
            for j in range(1, len(chain)):
                a, b = chain[j - 1], chain[j]
                require(b[: len(a)] == a, lambda: f"n={n}: file content before insert #{j} is not a prefix of the content after it: {a[-80:]!r} -> {b[-80:]!r}")
                if flush:
                    require(len(b) > len(a), lambda: f"n={n}: insert #{j} did not append although flush_on_insert is on")
            require(not any(".read" in c or ".iter" in c for c in log), lambda: f"n={n}: insert read from the file: {log}")
            logs.append([c.split("(")[0] for c in log])
            db.close()
            after = files.read_bytes(path)
            require(after[: len(before)] == before and len(after) > len(before), lambda: f"n={n}: after close() the previous content is not a proper prefix of the file")
            # and the data is really there
            db2 = TinyFlux(path, auto_index=False)
            got = db2.all(sorted=False)
            require(len(got) == n + 3, lambda: f"n={n}: reopened database has {len(got)} rows, expected {n + 3}")
            want = [T0 + 1000 + j if order == 0 else T0 - 1000 - j for j in range(3)]
            from ..symtime import us_of

            require([us_of(p.time) for p in got[-3:]] == want, lambda: f"n={n}: the three inserted rows read back as {[us_of(p.time) for p in got[-3:]]}")
            db2.close()
        for j, n in enumerate(sizes[1:], 1):
            require(logs[j] == logs[0], lambda: f"I/O calls of one insert depend on the database size: {logs[0]} (empty) vs {logs[j]} ({n} points)")
        if params.get("twin"):
            fail("reachability twin")

    run_path({"storage": "csv", "auto_index": True, "stub": False}, body)


HARNESS = {"h_fake": h_fake, "h_real": h_real}


def obligations(tier):
    obs = []
    for idx in ("invalid", "valid0", "valid2"):
        for npts in (1, 2, 3):
            for order in ("in", "out", "tie"):
                for how in ("db", "handle", "compact", "measurement"):
                    obs.append({"id": f"fake/{idx}/{npts}pt/{order}/{how}", "harness": "h_fake", "params": {"idx": idx, "npts": npts, "order": order, "how": how}, "budget_s": 60})
    obs.append({"id": "real/prefix-and-calls", "harness": "h_real", "params": {}, "budget_s": 120})
    if tier == "thorough":
        obs.append({"id": "real/prefix-and-calls/large", "harness": "h_real", "params": {"sizes": [0, 5, 161, 700, 3000]}, "budget_s": 600})
    obs.append({"id": "twin/fake", "harness": "h_fake", "params": {"idx": "valid0", "npts": 1, "order": "in", "twin": True}, "budget_s": 30})
    obs.append({"id": "twin/real", "harness": "h_real", "params": {"twin": True}, "budget_s": 60})
    return obs
