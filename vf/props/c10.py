"""C10 - a Measurement handle is exactly the database restricted to that measurement."""
from .. import lpe
from ..hist import SYM, apply_op, run_path, _target
from ..lpe import fail, require, show
from ..model import q_repr
from . import histcommon as hc
from .c01 import A, A2, B, C, CONFIGS, D, OP, _split, _untuple, attrs, pspec
from .c03 import UPDS

PROP = "C10"
FUNCTIONS_ENCODED = [
    "tinyflux.measurement.Measurement.* (all methods)",
    "tinyflux.database.TinyFlux.measurement and every operation with a measurement filter (mq & query on the index path, row filter on the scan path)",
    "tinyflux.index.Index.get_*(measurement)",
]
TRUSTED = hc.TRUSTED
ASSUMPTIONS = hc.COMMON_ASSUMPTIONS + [
    "bounds: 3 points with symbolic measurement in {m,n} (and {'' ,m} for the empty-name obligations), one operation through "
    "db.measurement(name) for name in {'m','n','zz',''}, then reads through the handle and through the database",
    "every Measurement method is driven; handles are obtained before the data changed (stale) or freshly",
    "the absolute oracle is the model restricted to `name`; since db.op(..., measurement=name) is checked against the same "
    "oracle (C01-C03, C07), equality of the two follows",
]
BOUNDS = {"points": 3}
KF_EMPTY = "KF-C10-empty-measurement-name"


def h_handle(params):
    name = params["name"]
    kind = params["kind"]
    if name == "" and KF_EMPTY in params.get("exclude", []):
        return  # known finding: the whole obligation is the finding's input class
    used = hc.used_of(params) | {"meas"}
    if kind in ("update", "update_all"):
        us = hc._unlist(params["upd"])
        if "tags" in us or "unset_tags" in us:
            used |= {"tag"}
        if "fields" in us or "unset_fields" in us:
            used |= {"field"}
    cfg = hc.cfg_of(params)
    cfg["stale_handles"] = params.get("stale", False)

    def body(h):
        if params.get("stale"):
            _target(h, name)  # obtain the handle before any data exists
        n = params.get("n", 3)
        for i in range(n):
            s = pspec(i, used, params.get("torder", "ooo"), params.get("alpha", "sel"))
            if name == "":
                s["meas"] = ("", "m")[lpe.choose(h.name("me"), 2)]
            elif params.get("prefix_names"):
                s["meas"] = ("m", "mm")[lpe.choose(h.name("me"), 2)]
            apply_op(h, ("ins", s))
        for op in params.get("pre", []):
            apply_op(h, _untuple(op))
        if kind == "reads":
            h.check_reads(h.q(_untuple(params["q"])), None, what="handle reads", via=name)
        elif kind == "getters":
            hc.check_getters(h, [name], True)
        elif kind == "insert":
            s = pspec(7, used, params.get("torder", "ooo"), "sel")
            s["meas"] = params.get("point_meas", "n")
            apply_op(h, ("ins", s, name))
        elif kind == "insert_multiple":
            apply_op(h, ("insm", [dict(pspec(7, used, "ooo", "sel"), meas="n"), dict(pspec(8, used, "ooo", "sel"), meas=name or "q")], name))
        elif kind == "remove":
            apply_op(h, ("rm", _untuple(params["q"]), None, name))
        elif kind == "remove_all":
            apply_op(h, ("rmall", name))
        elif kind == "update":
            apply_op(h, ("upd", _untuple(params["q"]), hc._unlist(params["upd"]), name))
        elif kind == "update_all":
            apply_op(h, ("updall", hc._unlist(params["upd"]), name))
        h.check_contents(f"contents after handle {kind}")
        h.check_inv(f"after handle {kind}")
        if kind != "reads":
            h.check_reads(h.q(("tag", "k", "!=", "zz") if "tag" in used else ("noop", "meas")), None, what=f"handle read after {kind}", via=name)
            if params.get("reindex"):
                apply_op(h, ("reindex",))
            hc.check_getters(h, [name], True)
        if params.get("twin"):
            fail("reachability twin")

    run_path(cfg, body)


HARNESS = {"h_handle": h_handle}


def classify(ob, res):
    if ob["params"].get("name") == "":
        return KF_EMPTY
    return None


def _ob(oid, budget=60, presets=None, **p):
    return {"id": oid, "harness": "h_handle", "params": p, "budget_s": budget, "presets": presets or {}}


def obligations(tier):
    th = tier == "thorough"
    obs = []
    names = ("m", "n", "zz", "")
    for name in names:
        tag = name or "<empty>"
        for cname, ai, rx in CONFIGS:
            for q in (A, B, ("not", C), ("meas", "==", "m")) + ((("tag", "k", OP, SYM), D, ("or", A2, B)) if th else ()):
                obs.append(_ob(f"reads/{tag}/{q_repr(q)}/{cname}", name=name, kind="reads", q=q, ai=ai, reindex=rx, torder="sym" if "time" in attrs(q) else "ooo", split_op=True))
            obs.append(_ob(f"getters/{tag}/{cname}", name=name, kind="getters", ai=ai, reindex=rx, also=["tag", "field"], alpha="none"))
            obs.append(_ob(f"insert/{tag}/{cname}", name=name, kind="insert", ai=ai, reindex=rx))
            obs.append(_ob(f"insert_multiple/{tag}/{cname}", name=name, kind="insert_multiple", ai=ai, reindex=rx))
            for q in (B, A2, ("not", C)):
                obs.append(_ob(f"remove/{tag}/{q_repr(q)}/{cname}", name=name, kind="remove", q=q, ai=ai, reindex=rx, also=["tag"], torder="sym" if "time" in attrs(q) else "ooo"))
            obs.append(_ob(f"remove_all/{tag}/{cname}", name=name, kind="remove_all", ai=ai, reindex=rx, also=["tag"]))
            for uname in ("field=sym", "meas=n", "unset_tag", "time+1s", "tags_callable_merge") + (tuple(UPDS) if th else ()):
                obs.append(_ob(f"update/{tag}/{uname}/{cname}", name=name, kind="update", q=B, upd=UPDS[uname], ai=ai, reindex=rx, also=["tag"]))
                obs.append(_ob(f"update_all/{tag}/{uname}/{cname}", name=name, kind="update_all", upd=UPDS[uname], ai=ai, reindex=rx, also=["tag"]))
        # handles that predate the data / a drop / a remove_all
        for pre_name, pre in (("none", []), ("drop", [("drop", name or "m")]), ("rmall_ins", [("rmall",), ("ins", {"time": SYM, "meas": name or "m", "tags": {"k": "a"}, "fields": {}})])):
            for kind, extra in (("reads", {"q": B}), ("remove", {"q": B}), ("update", {"q": B, "upd": UPDS["field=sym"]}), ("insert", {}), ("getters", {})):
                obs.append(_ob(f"stale/{tag}/{pre_name}/{kind}", name=name, kind=kind, stale=True, pre=pre, ai=True, also=["tag"], **extra))
    # one measurement name a prefix of another (m / mm), index-served and scan-served (inexact query)
    for name in ("m", "mm"):
        for cname, ai, rx in CONFIGS[:2]:
            for q in (B, ("not", C), ("noop", "tag")):
                obs.append(_ob(f"prefix-names/reads/{name}/{q_repr(q)}/{cname}", name=name, kind="reads", q=q, ai=ai, prefix_names=True, also=["tag"]))
                obs.append(_ob(f"prefix-names/remove/{name}/{q_repr(q)}/{cname}", name=name, kind="remove", q=q, ai=ai, prefix_names=True, also=["tag"]))
                obs.append(_ob(f"prefix-names/update/{name}/{q_repr(q)}/{cname}", name=name, kind="update", q=q, upd=UPDS["field=sym"], ai=ai, prefix_names=True, also=["tag"]))
            obs.append(_ob(f"prefix-names/remove_all/{name}/{cname}", name=name, kind="remove_all", ai=ai, prefix_names=True, also=["tag"]))
            obs.append(_ob(f"prefix-names/getters/{name}/{cname}", name=name, kind="getters", ai=ai, prefix_names=True, also=["tag", "field"], alpha="none"))
    for name in ("m", "zz"):
        for kind, extra in (("reads", {"q": ("time", OP, SYM)}), ("remove", {"q": B}), ("update", {"q": B, "upd": UPDS["field=sym"]}), ("insert", {})):
            for cname, ai, rx in CONFIGS[:2]:
                obs.append(_ob(f"csv/{kind}/{name}/{cname}", name=name, kind=kind, ai=ai, storage="csv", n=2, also=["tag"], reopen=(cname == "scan"), split_op=True, budget=120, torder="sym", **extra))
    obs.append(_ob("twin/reads", name="m", kind="reads", q=B, ai=True, twin=True))
    obs.append(_ob("twin/update", name="m", kind="update", q=B, upd=UPDS["field=sym"], ai=True, also=["tag"], twin=True))
    return _split(obs)
