"""C02 - remove deletes exactly the matching points and nothing else."""
from ..hist import SYM
from ..model import q_repr
from . import histcommon as hc
from .c01 import A, A2, B, B2, C, COMPOUNDS, CONFIGS, D, L_FIELD, L_MEAS, L_TAG, L_TIME, M, OP, _split, attrs

PROP = "C02"
FUNCTIONS_ENCODED = [
    "tinyflux.database.TinyFlux.remove/drop_measurement/remove_all/_remove_helper/_reset_database/index_is_exact",
    "tinyflux.measurement.Measurement.remove/remove_all",
    "tinyflux.index.Index.search/remove/update/_remove_*/_update_*/_reset/invalidate/build",
    "tinyflux.storages.MemoryStorage / CSVStorage temp storage, _swap_temp_with_primary, reset",
    "then every read op (C01 machinery) and the index invariant of C06",
]
TRUSTED = hc.TRUSTED
ASSUMPTIONS = hc.COMMON_ASSUMPTIONS + [
    "bounds: 3 points before the removal (2-3 in csv), one removal, optionally one insert, then a symbolic time read",
    "outside the claim: larger databases, strings outside the alphabets",
]
BOUNDS = {"points": 3, "ops_after": 2}
from .c01 import h_wide  # noqa: E402

HARNESS = {"h_remove": hc.h_remove, "h_wide": h_wide, "h_inv": hc.h_inv}

REMOVAL_QUERIES = (
    [("time", OP, SYM), ("time_test", "ge", SYM), ("tag", "k", OP, SYM), ("tag_exists", "k"), ("tag_re", "k", "matches", "a|", 0), ("field", "f", OP, SYM), ("field_exists", "f"), ("meas", OP, SYM), ("noop", "tag"), ("field_map", "f", "f_neg", "<", SYM)]
    + [("not", A), ("not", B), ("not", C), ("not", D), ("and", A, B), ("or", A, B), ("and", ("not", C), B), ("or", ("not", D), M), ("and", A, ("or", B, C))]
    + [("and", B, ("not", C)), ("or", M, ("not", D)), ("and", B, ("field_map", "f", "f_neg", "<", SYM)), ("and", ("tag_exists", "k"), ("noop", "field"))]
)


def _ob(oid, budget=60, presets=None, **p):
    return {"id": oid, "harness": "h_remove", "params": p, "budget_s": budget, "presets": presets or {}}


def obligations(tier):
    th = tier == "thorough"
    obs = []
    for q in REMOVAL_QUERIES:
        big = len(attrs(q)) >= 2
        for cname, ai, rx in CONFIGS:
            obs.append(_ob(f"rm/{q_repr(q)}/{cname}", q=q, kind="rm", ai=ai, reindex=rx, alpha="small" if th or not big else "sel", n=3 if th or len(attrs(q)) < 3 else 2, split_op=True, budget=300 if th else 60, torder="sym" if ("time" in attrs(q) or th) else "ooo", read=("time", ">=", SYM)))
    for q in (("field", "f", OP, SYM), ("not", C), ("and", B, C)):
        for cname, ai, rx in CONFIGS[:2]:
            obs.append(_ob(f"rm-floats/{q_repr(q)}/{cname}", q=q, kind="rm", ai=ai, reindex=rx, alpha="sel", n=2 if not th else 3, floats=True, split_op=True, torder="ooo"))
    for mf in ("m", "n", "zz"):
        for q in (A, B, ("not", C)):
            for cname, ai, rx in CONFIGS[:2]:
                obs.append(_ob(f"rm-mfilter/{mf}/{q_repr(q)}/{cname}", q=q, kind="rm", mfilter=mf, ai=ai, reindex=rx, alpha="sel", torder="sym" if "time" in attrs(q) else "ooo"))
                obs.append(_ob(f"rm-handle/{mf}/{q_repr(q)}/{cname}", q=q, kind="rm_via", via=mf, ai=ai, reindex=rx, alpha="sel", torder="sym" if "time" in attrs(q) else "ooo"))
    for cname, ai, rx in CONFIGS:
        for name in ("m", "n", "zz"):
            obs.append(_ob(f"drop/{name}/{cname}", kind="drop", name=name, ai=ai, reindex=rx, alpha="sel"))
            obs.append(_ob(f"handle-remove_all/{name}/{cname}", kind="rmall_via", via=name, ai=ai, reindex=rx, alpha="sel"))
        obs.append(_ob(f"remove_all/{cname}", kind="rmall", ai=ai, reindex=rx, alpha="sel"))
        obs.append(_ob(f"remove_all+insert/{cname}", kind="rmall", ai=ai, reindex=rx, alpha="sel", then_insert=True))
        for q in (A2, B):
            obs.append(_ob(f"rm+insert/{q_repr(q)}/{cname}", q=q, kind="rm", ai=ai, reindex=rx, alpha="sel", then_insert=True, read=("time", OP, SYM), split_op=True))
            obs.append(_ob(f"read+rm/{q_repr(q)}/{cname}", q=q, kind="rm", ai=ai, reindex=rx, alpha="sel", pre_read=True))
    # removal executed on a manually built valid index (auto_index off, reindex BEFORE the removal, none after)
    for q in (B, A2, ("tag", "k", OP, SYM), ("and", A, B)):
        obs.append(_ob(f"rm-manual-pre/{q_repr(q)}", q=q, kind="rm", ai=False, reindex_pre=True, alpha="sel", n=3, split_op=True, torder="sym"))
        obs.append(_ob(f"rm-manual-pre+insert/{q_repr(q)}", q=q, kind="rm", ai=False, reindex_pre=True, alpha="sel", n=3, split_op=True, torder="sym", then_insert=True))
    for name in ("m", "n"):
        obs.append(_ob(f"drop-manual-pre/{name}", kind="drop", name=name, ai=False, reindex_pre=True, alpha="sel"))
    # one measurement name a prefix of the other (filter and handle), index-served and scan-served
    for mf in ("m", "mm"):
        for q in (B, ("not", C), ("noop", "tag")):
            for cname, ai, rx in CONFIGS[:2]:
                obs.append(_ob(f"rm-prefix-names/filter/{mf}/{q_repr(q)}/{cname}", q=q, kind="rm", mfilter=mf, ai=ai, alpha="sel", torder="ooo", meas_alpha=["m", "mm"]))
                obs.append(_ob(f"rm-prefix-names/handle/{mf}/{q_repr(q)}/{cname}", q=q, kind="rm_via", via=mf, ai=ai, alpha="sel", torder="ooo", meas_alpha=["m", "mm"]))
    for cname, ai, rx in CONFIGS[:2] + [("manual-pre", False, False)]:
        for extra in ({}, {"two_meas": True, "mfilter": "m"}):
            o = {"id": f"wide/rm/{cname}{'/filter' if extra else ''}", "harness": "h_wide", "params": dict({"kind": "rm", "ai": ai, "reindex_pre": cname == "manual-pre", "n": 10 if th else 9}, **extra), "budget_s": 120 if not th else 600, "presets": {}}
            obs.append(o)
    # multi-operation histories around a removal: [X, removal, Y] with contents, return values, the index
    # invariant after every step and a final read (through the database, a filter or a handle)
    removals = ["rm_tag", "rm_tag_ne", "rm_time", "rm_time_ge", "rm_notfield", "rm_filter_m", "rm_handle_n", "rmall_handle", "drop"]
    before = ["ins", "insm", "upd_tags", "upd_time", "upd_meas", "rm_tag", "read", "reindex", "ins_notime"]
    after = ["ins", "rm_time", "upd", "read_tag", "ins_handle"]
    seq = []
    for r in removals:
        for x in before:
            for y in after:
                for ai in (True, False):
                    ops = [hc.OPLIB[o] for o in ("ins", "ins", x, r, y)]
                    fin = {"final_q": ("tag", "k", "!=", "zz"), "final_mfilter": "m"} if y in ("ins", "ins_handle") else {}
                    seq.append({"id": f"seq/{'ai' if ai else 'noai'}/ins,ins,{x},{r},{y}", "harness": "h_inv", "params": dict({"ops": ops, "ai": ai, "alpha": "sel", "also": ["tag", "meas"] if (r in ("rm_filter_m", "rm_handle_n", "rmall_handle", "drop") or x == "upd_meas") else ["tag"], "torder": hc.seq_torder(("ins", "ins", x, r, y))}, **fin), "budget_s": 120 if not th else 600, "presets": {}})
    obs.extend(hc.thin(seq, 270 if th else 44))
    csvq = [("time", OP, SYM), B, ("and", ("not", C), B), ("tag_exists", "k")] + ([("field", "f", OP, SYM), ("or", A, B)] if th else [])
    for q in csvq:
        for cname, ai, rx in CONFIGS[:2]:
            obs.append(_ob(f"csv/rm/{q_repr(q)}/{cname}", q=q, kind="rm", ai=ai, reindex=rx, storage="csv", n=3 if th else 2, alpha="sel", reopen=(cname == "scan"), split_op=True, budget=300 if th else 90))
    for cname, ai, rx in CONFIGS[:2]:
        # surviving rows whose strings contain CR / CRLF must come back unmodified through the live handle
        obs.append(_ob(f"csv/rm-cr/{cname}", q=("tag", "k", "==", "a"), kind="rm", ai=ai, storage="csv", n=3, alpha="cr", also=["tag"], then_insert=True, torder="ooo", budget=120))
        obs.append(_ob(f"csv/rm-cr-twice/{cname}", q=("tag", "k", "==", "a"), kind="rm", ai=ai, storage="csv", n=3, alpha="cr", also=["tag"], pre_remove=True, torder="sym", csv_times=2, budget=120))
        obs.append(_ob(f"csv/drop/{cname}", kind="drop", name="n", ai=ai, storage="csv", n=3, alpha="sel", reopen=True, budget=120))
        obs.append(_ob(f"csv/remove_all+insert/{cname}", kind="rmall", ai=ai, storage="csv", n=2, alpha="sel", then_insert=True, budget=120))
    if th:
        for q in REMOVAL_QUERIES:
            obs.append(_ob(f"n4/rm/{q_repr(q)}", q=q, kind="rm", ai=True, n=4, alpha="sel", split_op=True, budget=900))
    obs.append(_ob("twin/rm", q=B, kind="rm", ai=True, alpha="sel", twin=True))
    obs.append(_ob("twin/drop", kind="drop", name="n", ai=True, alpha="sel", twin=True))
    return _split(obs)
