"""C12 / C13 harnesses - a crash (C12) or an OSError (C13) at any I/O step.

The crash/fault boundary k is a bounded selector over the I/O calls the operation makes
(every write, flush, fsync, truncate, close, open, temp-file creation, and three
boundaries inside the file copy); exhaustion == enumeration of boundaries, the solver
adds feasibility bookkeeping only - stated in the claim.
"""
import os

from .. import files, lpe
from ..hist import apply_op, run_path
from ..lpe import choose, fail, require, show
from ..model import MP, ModelDB, make_change, mp_eq
from ..symtime import mk_time

PROP = "C12"
LEVEL = "fault_enumeration"
FUNCTIONS_ENCODED = [
    "tinyflux.storages.CSVStorage.append/_write/reset/_init_temp_storage/_swap_temp_with_primary/_cleanup_temp_storage",
    "tinyflux.database.TinyFlux._insert_helper/_update_helper/_remove_helper/_reset_database/temp_storage_op",
    "real files through recording proxies (vf.files): open, NamedTemporaryFile, os.fsync/replace/remove, shutil.copy",
]
TRUSTED = ["vf.files proxies (process death == exception at a call boundary; on-disk state read through an independent handle)", "vf.model", "vf.lpe (selector enumeration)"]
ASSUMPTIONS = [
    "crash points are CALL boundaries: before each proxied I/O call, plus three inside the file copy (destination opened and "
    "truncated / half written / fully written); torn writes inside one write(2), power-loss reordering and the OS page cache are "
    "outside the claim; really killing a child process is outside this technique and is not done",
    "at a crash, bytes already passed to write() but still in the user-space buffer are lost (the file is read through an "
    "independent handle at that instant)",
    "history: 3 stored points (2 measurements), default flush_on_insert=True; operations: insert, insert_multiple(2), update, "
    "remove (with and without measurement filter), drop_measurement, remove_all, Measurement.remove_all/insert/update, update_all, update with callables / "
    "time / unset, compact prefixes, insert_multiple(3), out-of-order insert; auto_index on/off; optionally after an early-stopping read and "
    "after an earlier completed rewrite",
    "asserted: the file decodes (independent reader) to the old or the new contents (insert_multiple: old + a prefix of the new "
    "points) and a fresh TinyFlux(path) opens it with the same contents",
    "finite selectors: exhaustion == enumeration of boundaries",
]
BOUNDS = {"boundaries": "<= 64 per operation (an operation that reaches the last one is reported inconclusive, not passed)"}
T0 = 1_600_000_000_000_000
KMAX = 64


def base_points(big=False):
    pts = [
        MP(T0, "m", {"k": "a", "j": "x,y"}, {"f": 1}),
        MP(T0 + 500_000, "n", {"k": "b"}, {"f": None, "g": -2.5}),
        MP(T0 + 1_000_000, "m", {"k": "a"}, {}),
    ]
    if big:  # thorough: six stored rows, one with a line break inside a quoted value, one out of time order
        pts += [
            MP(T0 + 1_200_000, "n", {"k": "a", "j": "l1\r\nl2"}, {"f": 3}),
            MP(T0 + 1_100_000, "m", {"k": "c"}, {"g": 0}),
            MP(T0 + 1_900_000, "q", {}, {"f": -1}),
        ]
    return pts


def to_point(mp):
    from tinyflux import Point

    return Point(time=mk_time(mp.t), measurement=mp.m, tags=dict(mp.tags), fields=dict(mp.fields))


OPS = (
    "insert", "insert_multiple", "update", "remove", "drop_measurement", "remove_all", "handle_remove_all", "update_all", "remove_everything",
    "insert_out_of_order", "insert_compact", "handle_insert", "insert_multiple3", "update_callable", "update_time", "remove_filtered", "handle_update", "update_unset",
    "remove_suffix", "remove_prefix", "remove_suffix2", "update_last", "update_first", "handle_remove_suffix",
    "insert_ooo_then_count", "search_only", "insert_multiple_unordered", "update_nochange", "remove_nomatch_scan",
)


W_OPS = ("insert", "update", "remove", "drop_measurement", "remove_prefix", "remove_suffix", "update_time", "handle_update", "remove_all")


def run_op(db, op):
    from tinyflux import FieldQuery, TagQuery, TimeQuery

    qa = TagQuery().k == "a"
    new1 = MP(T0 + 2_000_000, "m", {"k": "c"}, {"f": 7})
    new2 = MP(T0 + 2_500_000, "n", {"k": "d\ne"}, {"f": 8})
    if op == "insert":
        db.insert(to_point(new1))
    elif op == "insert_out_of_order":
        db.insert(to_point(MP(T0 - 5, "m", {"k": "c"}, {"f": 7})))
    elif op == "insert_multiple":
        db.insert_multiple([to_point(new1), to_point(new2)])
    elif op == "insert_multiple_unordered":  # the batch is not in time order: the prefix is a prefix of the GIVEN order
        db.insert_multiple([to_point(new2), to_point(MP(T0 - 9, "m", {"k": "e"}, {})), to_point(new1)])
    elif op == "update":
        db.update(qa, fields={"f": 9}, tags={"z": "1"})
    elif op == "insert_compact":
        db.insert(to_point(new1), compact_key_prefixes=True)
    elif op == "handle_insert":
        db.measurement("n").insert(to_point(new1))
    elif op == "insert_multiple3":
        db.insert_multiple([to_point(new1), to_point(new2), to_point(MP(T0 + 2_500_000, "m", {}, {"h": 0}))])
    elif op == "update_callable":
        db.update(qa, fields=lambda f: {"f": 9}, tags=lambda t: {"z": "1"})
    elif op == "update_time":
        db.update(qa, time=mk_time(T0 - 7_000_000))
    elif op == "remove_filtered":
        db.remove(TagQuery().k.exists(), "n")
    elif op == "handle_update":
        db.measurement("m").update(qa, fields={"f": 9}, tags={"z": "1"})
    elif op == "update_unset":
        db.update(qa, unset_tags=["j", "k"], unset_fields="f")
    elif op == "insert_ooo_then_count":  # the read after an out-of-order insert rebuilds the index (auto_index) or scans
        db.insert(to_point(MP(T0 - 5, "m", {"k": "c"}, {"f": 7})))
        db.count(TagQuery().k.exists())
        db.get_timestamps()
    elif op == "update_nochange":  # rows are staged, nothing changes, no swap
        db.update(qa, tags={"k": "a"})
    elif op == "remove_nomatch_scan":  # a query the index cannot answer exactly: the scan stages every row, nothing is removed
        db.remove(~(FieldQuery().g < 100) & (TagQuery().k == "nomatch"))
    elif op == "search_only":  # a pure read: scans storage or is served by the index
        db.search(TagQuery().k == "a")
        db.all()
    elif op == "remove_suffix":  # only the last stored row goes: no kept row changes position
        db.remove(TimeQuery() >= mk_time(T0 + 1_000_000))
    elif op == "remove_suffix2":
        db.remove(TimeQuery() > mk_time(T0))
    elif op == "remove_prefix":  # only the first stored row goes: every kept row moves
        db.remove(TimeQuery() < mk_time(T0 + 500_000))
    elif op == "handle_remove_suffix":
        db.measurement("m").remove(TimeQuery() > mk_time(T0))
    elif op == "update_last":
        db.update(TimeQuery() >= mk_time(T0 + 1_000_000), fields={"f": 9})
    elif op == "update_first":
        db.update(TimeQuery() <= mk_time(T0), fields={"f": 9})
    elif op == "update_all":
        db.update_all(measurement="q")
    elif op == "remove":
        db.remove(qa)
    elif op == "remove_everything":
        db.remove(TagQuery().k.exists())
    elif op == "drop_measurement":
        db.drop_measurement("n")
    elif op == "remove_all":
        db.remove_all()
    elif op == "handle_remove_all":
        db.measurement("m").remove_all()


def outcomes(op, big=False):
    """List of acceptable contents (lists of MP): old, intermediate prefixes, new."""
    old = base_points(big)
    new1 = MP(T0 + 2_000_000, "m", {"k": "c"}, {"f": 7})
    new2 = MP(T0 + 2_500_000, "n", {"k": "d\ne"}, {"f": 8})
    if op == "insert":
        return [old, old + [new1]]
    if op == "insert_out_of_order":
        return [old, old + [MP(T0 - 5, "m", {"k": "c"}, {"f": 7})]]
    if op in ("insert_compact",):
        return [old, old + [new1]]
    if op == "handle_insert":
        n1 = new1.copy()
        n1.m = "n"
        return [old, old + [n1]]
    if op == "insert_multiple3":
        new3 = MP(T0 + 2_500_000, "m", {}, {"h": 0})
        return [old, old + [new1], old + [new1, new2], old + [new1, new2, new3]]
    if op in ("update_callable", "handle_update"):
        ch = make_change(fields={"f": 9}, tags={"z": "1"})
        return [old, [ch(p.copy()) if (p.tags.get("k") == "a" and (op != "handle_update" or p.m == "m")) else p for p in old]]
    if op == "update_time":
        return [old, [make_change(time=T0 - 7_000_000)(p.copy()) if p.tags.get("k") == "a" else p for p in old]]
    if op == "remove_filtered":
        return [old, [p for p in old if p.m != "n"]]
    if op == "update_unset":
        ch = make_change(unset_tags=["j", "k"], unset_fields="f")
        return [old, [ch(p.copy()) if p.tags.get("k") == "a" else p for p in old]]
    if op == "insert_multiple":
        return [old, old + [new1], old + [new1, new2]]
    if op == "insert_multiple_unordered":
        early = MP(T0 - 9, "m", {"k": "e"}, {})
        return [old, old + [new2], old + [new2, early], old + [new2, early, new1]]
    if op == "update":
        ch = make_change(fields={"f": 9}, tags={"z": "1"})
        return [old, [ch(p.copy()) if p.tags.get("k") == "a" else p for p in old]]
    if op == "update_all":
        return [old, [make_change(measurement="q")(p.copy()) for p in old]]
    if op == "remove":
        return [old, [p for p in old if p.tags.get("k") != "a"]]
    if op == "drop_measurement":
        return [old, [p for p in old if p.m != "n"]]
    if op == "handle_remove_all":
        return [old, [p for p in old if p.m != "m"]]
    if op == "insert_ooo_then_count":
        return [old, old + [MP(T0 - 5, "m", {"k": "c"}, {"f": 7})]]
    if op in ("search_only", "update_nochange", "remove_nomatch_scan"):
        return [old]
    if op == "remove_everything":
        return [old, [p for p in old if "k" not in p.tags]]
    if op == "remove_suffix":
        return [old, [p for p in old if not p.t >= T0 + 1_000_000]]
    if op == "handle_remove_suffix":
        return [old, [p for p in old if not (p.m == "m" and p.t > T0)]]
    if op == "remove_suffix2":
        return [old, [p for p in old if not p.t > T0]]
    if op == "remove_prefix":
        return [old, [p for p in old if not p.t < T0 + 500_000]]
    if op == "update_last":
        return [old, [make_change(fields={"f": 9})(p.copy()) if p.t >= T0 + 1_000_000 else p for p in old]]
    if op == "update_first":
        return [old, [make_change(fields={"f": 9})(p.copy()) if p.t <= T0 else p for p in old]]
    return [old, []]


def same(pts, mps):
    """Decoded points == model points (concrete values)."""
    from ..symtime import us_of

    if len(pts) != len(mps):
        return False
    for p, mp in zip(pts, mps):
        q = MP(us_of(p.time), p.measurement, p.tags, p.fields)
        if not bool(mp_eq(q, mp)):
            return False
    return True


def h_crash(params):
    from tinyflux import TinyFlux

    op = params["op"]
    mode = params.get("mode", "crash")

    def body(h):
        for mp in base_points(params.get("big", False)):
            h.db.insert(to_point(mp))
        if params.get("pre_rewrite"):
            # an earlier, completed rewrite: the primary handle was closed and reopened, a staging file came and went
            from tinyflux import TagQuery

            h.db.insert(to_point(MP(T0 + 1_500_000, "zz", {"k": "gone"}, {})))
            h.db.remove(TagQuery().k == "gone")
        if params.get("pre_read"):
            from tinyflux import TagQuery

            h.db.get(TagQuery().k == "a")
        k = choose("k", KMAX)
        after = bool(lpe.sym_bool("after")) if mode == "oserror" else False
        files.CTL.watch = [h.path]
        files.CTL.reset(mode=mode, at=k, after=after)
        files.CTL.handles = []
        files.CTL.read_boundaries = mode == "oserror"
        files.CTL.active = True
        crashed = err = None
        try:
            run_op(h.db, op)
        except files.Crash as c:
            crashed = c
        except OSError as e:
            err = e
        except Exception as e:
            files.CTL.active = False
            fail(lambda: f"{op}: unexpected {type(e).__name__}: {e} with fault at boundary {k}")
        files.CTL.active = False
        fired = files.CTL.fired
        log = list(files.CTL.log)
        if fired is None:
            raise lpe.Infeasible()  # the operation makes fewer than k+1 I/O calls (or no 'after' point here)
        if fired[0] >= KMAX - 1:
            raise lpe.Inconclusive(f"{op} makes more than {KMAX} I/O calls: boundaries beyond are not covered")
        lpe.note("boundary", fired)
        lpe.note("io_calls_before_fault", log)
        if mode == "oserror" and fired[2] == "after" and not any(w in fired[1] for w in (".flush", "fsync", ".close", ".write", "truncate")):
            raise lpe.Infeasible()  # "after it took effect" only for write/flush/fsync/truncate/close
        oks = outcomes(op, params.get("big", False))
        where = f"{op}: {mode} {fired[2]} boundary {fired[0]} ({fired[1]})"
        if mode == "crash":
            _check_disk(h, oks, where)
        else:
            require(err is not None, lambda: f"{where}: the injected OSError did not reach the caller")
            _after_oserror(h, oks, where, params)
        if params.get("twin"):
            fail("reachability twin")

    cfg = {"storage": "csv", "auto_index": params.get("ai", True), "io_proxy": True, "stub": False}
    if params.get("access_mode"):
        cfg["csv_kwargs"] = {"access_mode": params["access_mode"]}
    run_path(cfg, body)


def _check_disk(h, oks, where):
    from tinyflux import TinyFlux

    data = files.CTL.snapshot.get(h.path)
    require(data is not None, lambda: f"{where}: the database file does not exist at the crash instant")
    pts, why = files.decode_file(h.path, data=data)
    require(pts is not None, lambda: f"{where}: the file left on disk does not decode: {why}")
    require(any(same(pts, o) for o in oks), lambda: f"{where}: the file holds {show(pts)}, which is neither the old nor the new contents")
    files.uninstall()
    # a fresh process opens the file as it was left at the crash instant
    crashed_copy = h.path + ".crashed.csv"
    with open(crashed_copy, "wb") as f:
        f.write(data)
    try:
        db2 = TinyFlux(crashed_copy, auto_index=True)
        got = db2.all(sorted=False)
        db2.close()
    except Exception as e:
        fail(lambda: f"{where}: a fresh TinyFlux(path) cannot open the file: {type(e).__name__}: {e}")
    require(any(same(got, o) for o in oks), lambda: f"{where}: a fresh TinyFlux(path) sees {show(got)}")


def _after_oserror(h, oks, where, params):
    """C13: the file decodes to old or new; the live object either answers consistently
    with its own storage or raises - never silently wrong."""
    from tinyflux import TagQuery, TinyFlux

    db = h.db
    pts, why = files.decode_file(h.path)
    require(pts is not None, lambda: f"{where}: the file on disk does not decode: {why}")
    require(any(same(pts, o) for o in oks), lambda: f"{where}: the file holds {show(pts)}: neither old nor new contents")
    # the live object: every answer equals what its own storage holds at that moment, or is an exception
    def consistent(stage):
        # what the object's storage holds: read through the object if that works, otherwise (handle
        # closed by the failed operation) the file at its path
        try:
            stored = list(iter(db))
            src = "the object's own storage"
        except Exception:
            stored, _why = files.decode_file(h.path)
            src = "the file at the object's path (its handle no longer reads)"
            if stored is None:
                return
        exp = sum(1 for p in stored if "k" in p.tags)

        def answer(fn):
            try:
                return (fn(),)
            except Exception:
                return None  # fails loudly: acceptable

        r = answer(lambda: db.count(TagQuery().k.exists()))
        if r is not None:
            require(r[0] == exp, lambda: f"{where}: {stage}: count() = {r[0]} but {src} holds {exp} matching rows ({show(stored)})")
        r2 = answer(lambda: len(db))
        if r2 is not None:
            require(r2[0] == len(stored), lambda: f"{where}: {stage}: len() = {r2[0]} but {src} holds {len(stored)} rows")
        r3 = answer(lambda: len(db.all(sorted=False)))
        if r3 is not None:
            require(r3[0] == len(stored), lambda: f"{where}: {stage}: all() returns {r3[0]} points but {src} holds {len(stored)} rows")
        r4 = answer(lambda: len(db.get_timestamps()))
        if r4 is not None:
            require(r4[0] == len(stored), lambda: f"{where}: {stage}: get_timestamps() returns {r4[0]} values but {src} holds {len(stored)} rows")
        r5 = answer(lambda: sorted(db.get_measurements()))
        if r5 is not None:
            want = sorted({p.measurement for p in stored})
            require(r5[0] == want, lambda: f"{where}: {stage}: get_measurements() = {r5[0]} but {src} holds {want}")

    consistent("right after the error")
    nxt = params.get("next", "insert")
    try:
        if nxt == "insert":
            db.insert(to_point(MP(T0 + 9_000_000, "m", {"k": "z"}, {})))
        elif nxt == "remove":
            db.remove(TagQuery().k == "b")
        wrote = True
    except Exception:
        wrote = False
    consistent(f"after a further {nxt}")
    try:
        db.close()
    except Exception:
        pass
    files.uninstall()
    pts2, why2 = files.decode_file(h.path)
    require(pts2 is not None, lambda: f"{where}: after close() the file does not decode: {why2}")
    # whatever the later operations did, rows must be whole points from the old/new contents or the later insert
    try:
        db2 = TinyFlux(h.path, auto_index=True)
        got = db2.all(sorted=False)
        db2.close()
    except Exception as e:
        fail(lambda: f"{where}: after close() a fresh TinyFlux(path) cannot open the file: {type(e).__name__}: {e}")
    universe = []
    for o in oks:
        universe += o
    universe.append(MP(T0 + 9_000_000, "m", {"k": "z"}, {}))
    for p in got:
        require(any(same([p], [u]) for u in universe), lambda: f"{where}: after reopen the file contains a point that was never stored: {show(p)}")
    # and exactly: the contents after the fault (old or new) with the further operation applied - when that
    # operation reported success - or one of those with or without it when it raised
    z = MP(T0 + 9_000_000, "m", {"k": "z"}, {})

    def after_next(o):
        return o + [z] if nxt == "insert" else [p for p in o if p.tags.get("k") != "b"]

    cands = [after_next(o) for o in oks] + ([] if wrote else list(oks))
    require(any(same(got, c) for c in cands), lambda: f"{where}: after a further {nxt} ({'succeeded' if wrote else 'raised'}), close and reopen the database holds {show(got)}: not the old/new contents with that operation applied")


HARNESS = {"h_crash": h_crash}


def obligations(tier):
    obs = []
    for op in OPS:
        for ai in (True, False):
            for pre in (False, True):
                for rew in (False, True):
                    obs.append({"id": f"crash/{op}/{'ai' if ai else 'noai'}{'/after-read' if pre else ''}{'/after-rewrite' if rew else ''}", "harness": "h_crash", "params": {"op": op, "ai": ai, "pre_read": pre, "pre_rewrite": rew}, "budget_s": 120})
    # a database created with access_mode='w+' (truncating open): rewrites reopen the primary
    for op in W_OPS:
        for ai in (True, False):
            obs.append({"id": f"crash/{op}/{'ai' if ai else 'noai'}/mode-w+", "harness": "h_crash", "params": {"op": op, "ai": ai, "access_mode": "w+"}, "budget_s": 120})
    if tier == "thorough":
        for op in OPS:
            for ai in (True, False):
                for rew in (False, True):
                    obs.append({"id": f"crash/{op}/{'ai' if ai else 'noai'}/six-rows{'/after-rewrite' if rew else ''}", "harness": "h_crash", "params": {"op": op, "ai": ai, "big": True, "pre_rewrite": rew}, "budget_s": 300})
    obs.append({"id": "twin/crash", "harness": "h_crash", "params": {"op": "update", "ai": True, "twin": True}, "budget_s": 60})
    return obs
