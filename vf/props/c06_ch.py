"""Cross-validation of the lean path engine against CrossHair on one database-level obligation.

The SAME scenario as `h_xval` in c06.py (3 points with symbolic times and tag selectors placed
directly into MemoryStorage, index built or invalidated, remove(tag k == 'a'), then
count(TimeQuery() >= x) against the model) runs here under CrossHair with typed arguments.
Both engines must return the same verdict; their path counts are reported side by side
(design round: 1 583 vs 1 589 paths).
"""
from ..chdrv import cap

EXCLUDE = set()
PARAMS = {}
TAGS = [{}, {"k": "a"}, {"k": "b"}]


def _scenario(t0, t1, t2, x, s0, s1, s2, valid, ai):
    from tinyflux import Point, TagQuery, TimeQuery, TinyFlux
    from tinyflux.storages import MemoryStorage

    from .. import symtime
    from ..symtime import SymTime

    symtime.install()
    try:
        ts, ss = [t0, t1, t2], [s0, s1, s2]
        pts = [Point(time=SymTime(ts[i], 0), measurement="m", tags=dict(TAGS[ss[i]])) for i in range(3)]
        db = TinyFlux(storage=MemoryStorage, auto_index=ai)
        db._storage._memory = list(pts)
        if valid:
            db._index.build(pts)
        else:
            db._index.invalidate()
        n = db.remove(TagQuery().k == "a")
        keep = [i for i in range(3) if ss[i] != 1]
        if n != 3 - len(keep):
            return False
        got = db.count(TimeQuery() >= SymTime(x, 0))
        exp = 0
        for i in keep:
            if ts[i] >= x:
                exp += 1
        return got == exp
    finally:
        symtime.uninstall()


def h_xval(t0: int, t1: int, t2: int, x: int, s0: int, s1: int, s2: int, valid: bool, ai: bool) -> bool:
    """
    pre: 0 <= s0 < 3 and 0 <= s1 < 3 and 0 <= s2 < 3
    post: _
    """
    return cap(_scenario, t0, t1, t2, x, s0, s1, s2, valid, ai)
