#!/usr/bin/env python3
"""Regenerate /verif/MANIFEST.json from the table below (run after adding a check)."""
import json
import os

V = os.path.dirname(os.path.dirname(os.path.abspath(__file__)))

LPE = "bounded symbolic execution of the real Python code (own path engine, z3 decides every branch) against a reference model"
CH = "CrossHair symbolic execution (z3) of the real functions, per-path exhaustive within bounds"
NOTE_LPE = (
    "trusted: z3; vf.lpe proxies/search; vf.symtime time stub (validated against datetime each run); vf.model oracle. "
    "Bounds, cuts and stubs are listed in the evidence file's assumptions."
)

CHECKS = {
    "C01": dict(
        technique=LPE,
        text="Every read operation (search/count/contains/get/select, with and without measurement filter) is compared with a "
        "reference model on every feasible path of bounded histories (<=3-4 points, depth <=5-6) whose times, field values, "
        "tag/measurement selectors, comparison operators and comparison values are symbolic; exhausting the decision tree "
        "decides the property for all values within those bounds, for memory (unbounded ints, float-typed quarters) and CSV (small "
        "ranges) storage, auto_index on / off / manual reindex before or after the operation; plus all two-operation histories over "
        "13 operations with four kinds of final read, and 9-10 point databases with every subset of matching positions.",
        design_ref="DESIGN.md 4 C01",
    ),
}

CHECKS["C18"] = dict(
    technique="symbolic execution of find_* (own path engine over z3 and CrossHair, cross-validated), all integer lists up to the length bound",
    text="For every sorted list up to length 7 (thorough 9) over ALL integers (stronger than the 5-value domain of the property) and "
    "every integer probe, each helper's return value equals the documented boundary position; decided per list length by "
    "exhausting the decision tree (lean engine) and independently by CrossHair ('Confirmed over all paths'); a float family "
    "(elements and probe k/2**40, |k| < 2**53, length <= 4, thorough 6; round() and +/- modelled over the reals, candidates replayed on "
    "doubles) separates exact comparison from rounding or tolerance; thorough adds List[float] under CrossHair's real-valued float model.",
    design_ref="DESIGN.md 4 C18",
    note="trusted: z3, vf.lpe, CrossHair; assumes sorted input; longer lists and NaN are outside the claim",
)

CHECKS["C09"] = dict(
    technique="bounded symbolic execution of query construction and evaluation (own path engine over z3; CrossHair for symbolic strings) against the documented meaning",
    text="Every vocabulary leaf and every compound to depth 2 (thorough: depth 3) is built with the real DSL and evaluated on one "
    "symbolic point (time and field value unbounded ints, operators and right-hand sides symbolic, tag/measurement values from "
    "finite alphabets incl. missing/None/empty, so the tag and field sets may be empty - whole-set map() leaves included); asserted on every path: no exception, value == documented meaning, ~/&/| == "
    "NOT/AND/OR of the operands' own results. CrossHair repeats the tag/measurement comparisons and regex leaves with arbitrary "
    "strings (length <= 4 / <= 2).",
    design_ref="DESIGN.md 4 C09",
)
CHECKS["C17"] = dict(
    technique="bounded symbolic execution of query __eq__/__hash__/__call__ for all shape pairs (own path engine over z3; CrossHair for string right-hand sides)",
    text="For every ordered pair of the ~130 query shapes up to depth 2 (right-hand ints symbolic, operators symbolic in the same-kind "
    "family, regex flags from {0,I,S}) and one symbolic point: q1 == q2 implies equal evaluation and equal hash; & and | commute "
    "for simple and compound operands; queries containing map() are unequal to everything. Decided by exhausting all paths.",
    design_ref="DESIGN.md 4 C17",
)

CHECKS["C02"] = dict(
    technique=LPE,
    text="remove / drop_measurement / remove_all / Measurement.remove(_all) with every vocabulary query shape (symbolic operators and "
    "right-hand sides, measurement filters) on 3 symbolic points: return value == number of model matches, surviving contents == "
    "model in the same order, index invariant, then a symbolic time read and optionally a further insert; all feasible paths. "
    "Also [X, removal, Y] histories over 9 removals x 9 preceding x 3-5 following operations, 9-10 point databases with every "
    "subset of removed positions, measurement names m/mm, CR/LF content surviving rewrites.",
    design_ref="DESIGN.md 4 C02",
)
CHECKS["C03"] = dict(
    technique=LPE,
    text="update / update_all / Measurement.update(_all) for 20 argument combinations (static and callable time, measurement, tags, "
    "fields, unset_* incl. a key set by the same call) x query shapes on 2-3 symbolic points: return value == number of points "
    "whose content changed in the model, contents == model (merge semantics, order), index invariant, then a symbolic read. "
    "Also two successive updates (aliasing), [X, update, Y] histories over 10 updates, callables that mutate their argument or "
    "return non-UTC times, 9-10 point databases with every subset of matching positions.",
    design_ref="DESIGN.md 4 C03",
)
CHECKS["C06"] = dict(
    technique=LPE,
    text="Every operation skeleton up to depth 3 (thorough 4; plus hand-picked depth 5-6) over 12 operations from an empty database with "
    "symbolic times: after every step a valid index must equal Index().build(storage) in canonical form, a non-decreasing insert "
    "must keep it valid, every read must leave it valid; plus one Index.remove/update/insert step from an arbitrary built index "
    "for every removal subset (inductive step). One obligation is discharged by both the lean engine and CrossHair (thorough) and "
    "the verdicts / path counts are compared (cross-validation of the home-grown engine).",
    design_ref="DESIGN.md 3, 4 C06",
)
CHECKS["C07"] = dict(
    technique=LPE,
    text="All exploration getters, len, iteration and all() of the database and of Measurement handles compared with the model for "
    "measurement filters {none,m,n,zz} on 3 symbolic points (measurement, tags incl. None/absent, fields incl. None/absent, "
    "times in any order), after optional remove/update/drop/remove_all, index valid / invalid / manually rebuilt, memory and "
    "CSV (incl. tag values containing CR/LF).",
    design_ref="DESIGN.md 4 C07",
)
CHECKS["C10"] = dict(
    technique=LPE,
    text="Every Measurement method (reads, getters, insert(_multiple), remove(_all), update(_all)) driven through db.measurement(name) "
    "for name in {m, n, zz, ''} on 3 points with symbolic measurement, compared with the model restricted to name; fresh and "
    "stale handles (obtained before drop_measurement / remove_all); contents of other measurements must be untouched.",
    design_ref="DESIGN.md 4 C10",
)
CHECKS["C11"] = dict(
    technique=LPE,
    text="Failing calls with a symbolic fault position (non-Point at position j of insert_multiple; update callable raising or returning "
    "an invalid value or raising a non-ValueError on its i-th call, alone or together with a static argument for an attribute that "
    "is written before the callable's one; 13 invalid static arguments; a failed insert followed by a re-insert of the same point): "
    "the call must raise, contents must equal the model's old contents (plus the inserted prefix), the index invariant must hold, "
    "and a following write and all reads must be correct.",
    design_ref="DESIGN.md 4 C11",
)

CHECKS["C08"] = dict(
    technique=LPE + "; SMT lemma (QF_LIRA) about CPython float timestamps",
    text="Inserted, updated and compared times are symbolic in three kinds - aware UTC, aware with a symbolic non-zero offset, naive "
    "(local offset an uninterpreted function of the wall value) - plus the insertion clock; every stored/returned time must be "
    "UTC-aware and equal the documented instant at microsecond resolution, TimeQuery results must equal instant comparison "
    "(all six operators, ties and adjacent microseconds chosen by the solver), sorted results stable. CSV obligations run "
    "concretely under four process zones. Lemma L-float-us (213 queries) justifies exact-rational timestamps in 1697-2242.",
    design_ref="DESIGN.md 2.1, 4 C08, E3",
)
CHECKS["C14"] = dict(
    technique="CrossHair symbolic execution with a Union-typed symbolic value (z3) + exhaustive selector enumeration of a wrongly-typed battery through the real API",
    text="For every (entry point, slot) pair the offending value is a symbolic Union[int,float,bool,bytes,None,str,List,Dict] (CrossHair; "
    "value slots) or ranges over a 19-literal battery (lean engine; all slots incl. dict keys, both storages, Measurement.*, with a "
    "valid companion argument, as a key whose value is None, inside a list of (key, value) pairs instead of a mapping, as insert's "
    "measurement argument or a handle name): "
    "either ValueError/TypeError is raised or the value is valid for the slot, and afterwards every stored point is well-typed.",
    design_ref="DESIGN.md 4 C14",
    note="trusted: CrossHair, z3, vf.lpe. The battery family is a finite product (exhaustion == enumeration); key slots cannot be symbolic in CrossHair (hashing realises the value).",
)

FILES = "exhaustive enumeration of finite selectors (configuration / fault boundary / operation) driven by the solver-based path engine over the real code on real files, against the reference model"
NOTE_FILES = (
    "trusted: vf.files I/O proxies (rebinding open/os/shutil/NamedTemporaryFile inside tinyflux.storages at run time), vf.model, "
    "the independent reader. Every symbolic variable is a finite selector, so exhausting the decision tree equals enumerating the "
    "product; the solver adds no deductive power here (stated in DESIGN.md 5)."
)
CHECKS["C04"] = dict(
    technique=FILES,
    text="For access modes r+/w+ x 4 encodings x 7 csv dialects (delimiter, QUOTE_ALL, quotechar, lineterminator, skipinitialspace, escapechar without doublequote) x flush_on_insert x compact prefixes x 13 write/read histories (incl. two rewrites, "
    "single buffered row before remove_all, files > 8 KiB with early-stopping reads) x 169 content pairs (strings with "
    "delimiters, quotes, CR, LF, non-ASCII) the database file is decoded by an independent csv reader after every call (after "
    "close() when flush_on_insert is off) and through a fresh read-only TinyFlux, and must equal the model's contents in order.",
    design_ref="DESIGN.md 4 C04, 5",
    note=NOTE_FILES,
)
CHECKS["C12"] = dict(
    technique=FILES,
    text="Process death is simulated at every I/O call boundary (and at three points inside a file copy) of insert, insert_multiple, update, "
    "update_all, remove (middle, prefix-only and suffix-only matches), drop_measurement, remove_all and the Measurement-handle versions on a "
    "3-point CSV database (default mode and access_mode='w+'): the bytes on disk at that "
    "instant, read through an independent handle, must decode to the old or the new contents (insert_multiple: old + prefix) and a "
    "fresh TinyFlux must open them.",
    design_ref="DESIGN.md 2.3, 4 C12, 5",
    note=NOTE_FILES,
    category="fault_enumeration",
)
CHECKS["C13"] = dict(
    technique=FILES,
    text="One OSError is injected at every I/O call of every operation, including every line read while the library scans its file and "
    "the reopen after a rewrite (before the call; after it for write/flush/fsync/truncate/close; default mode and access_mode='w+'): the "
    "error must reach the caller, the file must decode to old or new contents, EACH later answer of the live object must equal what "
    "its own storage holds (the file at its path when its handle no longer reads) or be an exception, and after a further write, close "
    "and reopen only stored points may be present.",
    design_ref="DESIGN.md 2.3, 4 C13, 5",
    note=NOTE_FILES,
    category="fault_enumeration",
)
CHECKS["C15"] = dict(
    technique=FILES,
    text="40 read / getter / iteration / reindex / no-op-write / real-write operations x access modes {r+, r, a, w+} x 6 preceding histories x "
    "auto_index: file bytes identical for reads and no-op writes, writes on a read-only database raise, and the directory "
    "listings of the temp directory and the database directory are identical before and after every call, returned or raised.",
    design_ref="DESIGN.md 4 C15, 5",
    note=NOTE_FILES,
)
CHECKS["C16"] = dict(
    technique="symbolic execution of CSVStorage.append / _insert_helper over an abstract file whose length and cursor are unbounded symbolic integers (z3), plus recorded real-file runs",
    text="The primary handle is replaced by a FakeFile with symbolic length L and cursor pos (0 <= pos <= L, unbounded): on every path no "
    "read happens, every write lands at an offset >= L, nothing is truncated below L, and the I/O call sequence equals the one "
    "for an empty file - for all sizes and cursor positions at once, also with a symbolic number of earlier bytes still in the "
    "write buffer (flush_on_insert off; fstat/getsize answer with the on-disk length). Real-file runs (flush on/off, three inserts back "
    "to back) check the byte-prefix chain, the reopened contents and identical recorded call lists for 0..3 and 160 stored points "
    "after early-stopping reads.",
    design_ref="DESIGN.md 4 C16",
)

CHECKS["C05"] = dict(
    technique="symbolic interpretation of the codec's source (AST -> z3 strings/ints, unbounded string length) with SMT lemmas about CPython; solver-driven enumeration through the real csv module for short strings",
    text="The source of Point._serialize_to_list/_deserialize_from_list is interpreted symbolically for every row shape up to 2 tags x 2 fields "
    "(thorough 3 x 3), both prefix styles, field values None | abstract double | symbolic int: decode(encode(p)) == p is refuted or "
    "proved unsat for strings of ANY length in measurement, tag keys, tag values, field keys (injectivity follows). The translator is "
    "validated against CPython on concrete points every run; lemmas L-int-float / L-repr-lang are discharged by z3. The C csv "
    "layer is exercised with all strings up to length 2 (3) over a 12-character alphabet in each slot x 4 dialects via real files.",
    design_ref="DESIGN.md 1 E2, E3, 4 C05",
    note="trusted: z3 sequence/regex theories, vf.pysym translator, CPython facts float(repr(x)) == x and fromisoformat(isoformat(t)) == t (sampled each run). Two open known findings are excluded by assuming their negation.",
)

NOT_YET = {}


def main():
    props = [json.loads(l) for l in open(os.path.join(V, "properties.jsonl"))]
    checks, na = [], []
    for p in props:
        pid = p["id"]
        if pid in CHECKS:
            c = CHECKS[pid]
            checks.append(
                {
                    "property_id": pid,
                    "quick_cmd": f"bin/check {pid} quick",
                    "thorough_cmd": f"bin/check {pid} thorough",
                    "evidence_file": f"evidence/{pid}.json",
                    "replay_cmd_template": "bin/check --replay {path}",
                    "engine": c.get("engine", "vf"),
                    "level_claimed": {
                        "category": c.get("category", "model_checking"),
                        "text": c["text"],
                        "design_ref": c.get("design_ref", "DESIGN.md 4"),
                    },
                    "level_note": c.get("note", NOTE_LPE),
                    "technique": c["technique"],
                }
            )
        else:
            na.append({"property_id": pid, "reason": NOT_YET.get(pid, "check not built yet (work in progress); no claim made")})
    man = {
        "version": 1,
        "setup_cmd": "sh bin/ensure_env.sh",
        "hooks": {
            "guard": "TINYFLUX_VERIF",
            "enable": "no source hooks: stubs are installed at run time by rebinding module globals of tinyflux.* inside the check process (bin/check exports TINYFLUX_VERIF=1 for documentation only)",
            "baseline_off_cmd": "cd /repo && /venv/bin/python -m pytest -ra -q -p no:cacheprovider --timeout=900 --continue-on-collection-errors",
            "source_commits": [],
            "add_only": True,
        },
        "engines": [
            {
                "name": "vf",
                "path": "vf/",
                "serves_properties": sorted(CHECKS),
                "kind_free_text": "solver-based checking of the real code: lean path engine over z3 (vf/lpe.py), CrossHair driver (vf/chdrv.py), AST->z3 interpreter (vf/pysym.py), SMT lemmas (vf/lemmas.py)",
            }
        ],
        "checks": checks,
        "not_applicable": na,
        "notes": "Exit codes: 0 held / 1 VIOLATION (reproduced on the real code, not a listed known finding) / 2 harness error. Known findings: known_findings.json.",
    }
    json.dump(man, open(os.path.join(V, "MANIFEST.json"), "w"), indent=1)
    print("checks:", [c["property_id"] for c in checks], "not_applicable:", [n["property_id"] for n in na])


if __name__ == "__main__":
    main()
