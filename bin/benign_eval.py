#!/usr/bin/env python3
"""False-alarm test: behaviour-preserving refactorings must keep every check quiet.

usage: bin/benign_eval.py <module> <CHECK,CHECK,...> [r1,r2,...]    (reads /tmp/ref_<module>/OUT/r*.diff)
Each diff is applied to the scratch worktree /tmp/ref_<module> (never to /repo), the unedited
test-suite must pass, then the listed quick checks run with VF_REPO pointing there and must
all exit 0.  Results go to seeded/benign/<module>-r<i>/{patch.diff,meta.json}.
"""
import glob
import json
import os
import re
import shutil
import subprocess
import sys
import time

V = os.path.dirname(os.path.dirname(os.path.abspath(__file__)))


def sh(cmd, cwd=None, env=None):
    p = subprocess.run(cmd, shell=True, cwd=cwd, env=env, stdout=subprocess.PIPE, stderr=subprocess.STDOUT, text=True)
    return p.returncode, p.stdout


def main():
    mod, checks = sys.argv[1], sys.argv[2].split(",")
    only = set(sys.argv[3].split(",")) if len(sys.argv) > 3 else None
    wt = f"/tmp/ref_{mod}"
    bad = 0
    for diff in sorted(glob.glob(f"{wt}/OUT/r*.diff")):
        name = f"{mod}-{os.path.basename(diff)[:-5]}"
        if only and os.path.basename(diff)[:-5] not in only:
            continue
        sh("git checkout -- tinyflux", cwd=wt)
        rc, o = sh(f"git apply {diff}", cwd=wt)
        if rc:
            print(name, "does not apply:", o[:200])
            continue
        rc_t, o_t = sh("/venv/bin/python -m pytest -q -p no:cacheprovider", cwd=wt)
        meta = {"kind": "behaviour-preserving refactoring (must NOT be flagged)", "module": mod, "suite": o_t.strip().splitlines()[-1] if o_t.strip() else "", "description": open(diff[:-5] + ".md").read() if os.path.exists(diff[:-5] + ".md") else "", "ran": []}
        evd = f"/dev/shm/vf_benign_evidence_{os.getpid()}"
        env = dict(os.environ, VF_REPO=wt, VF_EVIDENCE_DIR=evd)
        for c in checks:
            t0 = time.time()
            rc_c, o_c = sh(f"bin/check {c} quick", cwd=V, env=env)
            lines = [l for l in o_c.splitlines() if re.match(r"^(VIOLATION|HARNESS-ERROR|  obligation=)", l)]
            summ = [l for l in o_c.splitlines() if l.startswith("SUMMARY")]
            meta["ran"].append({"check": f"bin/check {c} quick", "exit": rc_c, "summary": summ[-1] if summ else o_c[-300:], "noise": lines[:6]})
            flag = "" if rc_c == 0 else "   <<<<<< ALARM"
            print(f"{name}: {c} exit={rc_c} {round(time.time() - t0)}s{flag}")
            if rc_c != 0:
                bad += 1
                for l in lines[:4]:
                    print("      " + l[:300])
        sh("git checkout -- tinyflux", cwd=wt)
        shutil.rmtree(evd, ignore_errors=True)
        d = os.path.join(V, "seeded", "benign", name)
        os.makedirs(d, exist_ok=True)
        shutil.copy(diff, os.path.join(d, "patch.diff"))
        json.dump(meta, open(os.path.join(d, "meta.json"), "w"), indent=1)
    shutil.rmtree(os.path.join(V, "replays"), ignore_errors=True)
    return 1 if bad else 0


if __name__ == "__main__":
    sys.exit(main())
