#!/bin/sh
# Create the overlay interpreter /verif/.venv (offline, idempotent):
#   python 3.12 from /venv (the interpreter the test-suite uses) + /venv's site-packages
#   + crosshair-tool, z3-solver, cvc5 from the offline wheelhouse.
set -e
V="$(cd "$(dirname "$0")/.." && pwd)"
if [ -x "$V/.venv/bin/python" ] && "$V/.venv/bin/python" -c "import z3, crosshair" 2>/dev/null; then
  exit 0
fi
(
  flock 9
  if [ -x "$V/.venv/bin/python" ] && "$V/.venv/bin/python" -c "import z3, crosshair" 2>/dev/null; then
    exit 0
  fi
  rm -rf "$V/.venv"
  /venv/bin/python -m venv "$V/.venv"
  echo "import site; site.addsitedir('/venv/lib/python3.12/site-packages')" > "$V/.venv/lib/python3.12/site-packages/_overlay.pth"
  PIP_NO_INDEX=1 "$V/.venv/bin/pip" install -q --no-index --find-links /opt/veriftools/wheels crosshair-tool z3-solver cvc5 >/dev/null
) 9>"$V/.venv.lock"
