#!/usr/bin/env python3
"""Rewrite the 'quick: obligations / paths / wall' column of DESIGN.md section 4 from evidence/*.json."""
import json
import os
import re

V = os.path.dirname(os.path.dirname(os.path.abspath(__file__)))


def sci(n):
    if n < 1000:
        return str(n)
    e = len(str(n)) - 1
    m = round(n / 10**e, 1)
    if m >= 10:
        m, e = 1.0, e + 1
    return f"{m:g}·10^{e}"


def main():
    p = os.path.join(V, "DESIGN.md")
    lines = open(p).read().split("\n")
    for i, l in enumerate(lines):
        m = re.match(r"\| (C\d\d) \|", l)
        if not m or not l.rstrip().endswith("|"):
            continue
        ev = os.path.join(V, "evidence", m.group(1) + ".json")
        if not os.path.exists(ev):
            continue
        e = json.load(open(ev))
        if e.get("tier") != "quick":
            continue
        c = e["coverage"]
        cells = l.rstrip().rstrip("|").split("|")
        if len(cells) < 7:
            continue
        cells[-2] = f" {c.get('obligations')} / {sci(int(c.get('states') or 0))} / {round(e.get('wall_s') or 0)} s "
        lines[i] = "|".join(cells) + "|"
    open(p, "w").write("\n".join(lines))


if __name__ == "__main__":
    main()
