#!/bin/sh
# Run every registered check once (tier = $1, default quick); used before committing evidence.
cd "$(dirname "$0")/.."
TIER="${1:-quick}"
rc=0
for p in $(python3 -c "import json;print(' '.join(c['property_id'] for c in json.load(open('MANIFEST.json'))['checks']))"); do
  s=$(date +%s)
  out=$(bin/check "$p" "$TIER" 2>&1); r=$?
  echo "$out" | grep -E "^(VIOLATION|HARNESS-ERROR|KNOWN-FINDING|SUMMARY)" | cut -c1-260
  echo "   -> $p exit=$r $(( $(date +%s) - s ))s"
  [ $r -ne 0 ] && rc=1
done
exit $rc
