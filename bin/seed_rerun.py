#!/usr/bin/env python3
"""Self-test of the machinery: run the owning check of every stored seeded change.

usage: bin/seed_rerun.py [--tier quick|thorough] [SEED_DIR_NAME ...]   (default: all of seeded/*)

Each patch is applied to a scratch worktree of /repo's HEAD under /dev/shm (never to /repo
itself), the check runs with VF_REPO pointing there, the worktree is removed afterwards.
Results are written to seeded/<name>/meta.json ("latest") and summarised on stdout; exit 1
if a confirmed seeded change is not detected (check exits 0) by its owning property.
"""
import json
import os
import subprocess
import sys
import time

V = os.path.dirname(os.path.dirname(os.path.abspath(__file__)))


def sh(cmd, cwd=None, env=None):
    p = subprocess.run(cmd, shell=True, cwd=cwd, env=env, stdout=subprocess.PIPE, stderr=subprocess.STDOUT, text=True)
    return p.returncode, p.stdout


def main():
    args = sys.argv[1:]
    tier = "quick"
    if args[:1] == ["--tier"]:
        tier = args[1]
        args = args[2:]
    names = args or sorted(os.listdir(os.path.join(V, "seeded")))
    missed = []
    for name in names:
        d = os.path.join(V, "seeded", name)
        if not os.path.exists(os.path.join(d, "patch.diff")):
            continue
        meta = json.load(open(os.path.join(d, "meta.json")))
        prop = meta.get("owner_check") or meta["property"]
        wt = f"/dev/shm/vf_seed_{os.getpid()}_{name}"
        sh(f"git -C /repo worktree add -q --detach {wt} HEAD")
        try:
            rc, o = sh(f"git apply {d}/patch.diff", cwd=wt)
            if rc != 0:
                print(f"{name}: patch does not apply to HEAD: {o.strip()[:200]}")
                meta["latest"] = {"applies": False}
                continue
            env = dict(os.environ, VF_REPO=wt, VF_EVIDENCE_DIR=f"/dev/shm/vf_seed_evidence_{os.getpid()}")
            t0 = time.time()
            rc, o = sh(f"bin/check {prop} {tier}", cwd=V, env=env)
            vio = [l for l in o.splitlines() if l.startswith("VIOLATION")]
            first = ""
            lines = o.splitlines()
            for k, l in enumerate(lines):
                if l.startswith("VIOLATION"):
                    first = " | ".join(x.strip() for x in lines[k + 1 : k + 2])[:300]
                    break
            meta["latest"] = {"check": f"bin/check {prop} {tier}", "exit": rc, "violations": len(vio), "first": first, "wall_s": round(time.time() - t0, 1), "repo_head": subprocess.check_output(["git", "-C", "/repo", "rev-parse", "--short", "HEAD"], text=True).strip()}
            print(f"{name}: exit={rc} violations={len(vio)} {round(time.time() - t0)}s  {first[:160]}")
            if rc != 1:
                missed.append(name)
        finally:
            sh(f"git -C /repo worktree remove --force {wt}")
            json.dump(meta, open(os.path.join(d, "meta.json"), "w"), indent=1)
    subprocess.run(f"rm -rf replays /dev/shm/vf_seed_evidence_{os.getpid()}", shell=True, cwd=V)
    print("missed:", missed)
    return 1 if missed else 0


if __name__ == "__main__":
    sys.exit(main())
