#!/usr/bin/env python3
"""Confirm a seeded change and run the owning property's check against it.

usage: bin/seed_eval.py <PROPERTY> <i> [--tier quick|thorough] [--also C01,C06]

Expects the sub-agent's output in /tmp/seed_<PROPERTY>/OUT/m<i>.{diff,md} and m<i>_demo.py.
1. in the scratch worktree /tmp/seed_<PROPERTY>: apply the diff, the unedited test-suite must
   pass (149), the demonstration must exit 1; without the diff the demonstration must exit 0;
2. apply the diff to /repo, run bin/check <PROPERTY> <tier> (and any --also checks), undo it;
3. store patch.diff, demo.py, meta.json under /verif/seeded/<PROPERTY>-m<i>/.
Nothing is ever committed in /repo.
"""
import json
import os
import re
import shutil
import subprocess
import sys
import time

V = os.path.dirname(os.path.dirname(os.path.abspath(__file__)))


def sh(cmd, cwd=None, env=None, timeout=3600):
    p = subprocess.run(cmd, shell=True, cwd=cwd, env=env, stdout=subprocess.PIPE, stderr=subprocess.STDOUT, text=True, timeout=timeout)
    return p.returncode, p.stdout


def main():
    prop, i = sys.argv[1], sys.argv[2]
    tier = "quick"
    also = []
    a = sys.argv[3:]
    while a:
        if a[0] == "--tier":
            tier = a[1]
            a = a[2:]
        elif a[0] == "--also":
            also = a[1].split(",")
            a = a[2:]
        else:
            a = a[1:]
    wave = os.environ.get("SEED_WAVE", "")
    wt = f"/tmp/seed{wave}_{prop}"
    out = f"{wt}/OUT"
    diff, demo, md = f"{out}/m{i}.diff", f"{out}/m{i}_demo.py", f"{out}/m{i}.md"
    for f in (diff, demo):
        if not os.path.exists(f):
            print("missing", f)
            return 2
    env = dict(os.environ, PYTHONPATH=wt, PYTHONDONTWRITEBYTECODE="1")
    meta = {"property": prop, "mutant": f"m{i}", "description": open(md).read() if os.path.exists(md) else "", "ran": []}
    sh("git checkout -- tinyflux", cwd=wt)
    rc, o = sh(f"/venv/bin/python {demo}", cwd=wt, env=env)
    meta["demo_without_change_exit"] = rc
    rc_a, o_a = sh(f"git apply {diff}", cwd=wt)
    if rc_a != 0:
        print("patch does not apply in the worktree:", o_a)
        return 2
    rc_t, o_t = sh("/venv/bin/python -m pytest -q -p no:cacheprovider", cwd=wt)
    m = re.search(r"(\d+) passed", o_t)
    meta["suite_with_change"] = o_t.strip().splitlines()[-1] if o_t.strip() else ""
    rc_d, o_d = sh(f"/venv/bin/python {demo}", cwd=wt, env=env)
    meta["demo_with_change_exit"] = rc_d
    meta["demo_with_change_output"] = o_d[-600:]
    sh("git checkout -- tinyflux", cwd=wt)
    confirmed = rc == 0 and rc_d == 1 and rc_t == 0 and m and int(m.group(1)) == 149
    meta["confirmed"] = bool(confirmed)
    print(f"[{prop} m{i}] demo clean={rc} mutant={rc_d}; suite: {meta['suite_with_change']}; confirmed={confirmed}")
    # against the scratch worktree (same HEAD as /repo) with the change applied; /repo is never touched
    rc_r, o_r = sh(f"git apply {diff}", cwd=wt)
    if rc_r != 0:
        print("patch does not apply:", o_r)
        return 2
    evd = f"/dev/shm/vf_seed_evidence_{os.getpid()}"
    cenv = dict(os.environ, VF_REPO=wt, VF_EVIDENCE_DIR=evd)
    try:
        for p in [prop] + [x for x in also if x != prop]:
            t0 = time.time()
            rc_c, o_c = sh(f"bin/check {p} {tier}", cwd=V, env=cenv)
            summ = [l for l in o_c.splitlines() if l.startswith("SUMMARY")]
            vio = [l for l in o_c.splitlines() if l.startswith("VIOLATION")]
            first = ""
            for k, l in enumerate(o_c.splitlines()):
                if l.startswith("VIOLATION"):
                    first = "\n".join(o_c.splitlines()[k : k + 3])[:900]
                    break
            meta["ran"].append({"check": f"bin/check {p} {tier}", "exit": rc_c, "violations": len(vio), "summary": summ[-1] if summ else o_c[-300:], "first_violation": first, "wall_s": round(time.time() - t0, 1)})
            print(f"   bin/check {p} {tier}: exit={rc_c} violations={len(vio)} ({round(time.time() - t0)} s)")
            if first:
                print("   " + first.replace("\n", "\n   ")[:600])
    finally:
        sh("git checkout -- tinyflux", cwd=wt)
        shutil.rmtree(evd, ignore_errors=True)
    meta["detected_by_owner"] = any(r["exit"] == 1 for r in meta["ran"][:1])
    meta["detected_by"] = [r["check"] for r in meta["ran"] if r["exit"] == 1]
    d = os.path.join(V, "seeded", f"{prop}-{'w' + wave if wave else ''}m{i}")
    os.makedirs(d, exist_ok=True)
    shutil.copy(diff, os.path.join(d, "patch.diff"))
    shutil.copy(demo, os.path.join(d, "demo.py"))
    json.dump(meta, open(os.path.join(d, "meta.json"), "w"), indent=1)
    shutil.rmtree(os.path.join(V, "replays"), ignore_errors=True)
    return 0


if __name__ == "__main__":
    sys.exit(main())
